//! goldengen <out.json> <commit-id> [extra]
//! Produces the golden corpus (C18) with whatever library tree this harness is built against.
//! Run ONCE against the pinned commit from a scratch worktree; the output is committed.

use blsful_verif::golden;
use serde_json::json;

fn main() {
    let mut args = std::env::args().skip(1);
    let out = args.next().expect("output path");
    let commit = args.next().unwrap_or_else(|| "unknown".into());
    let extra = args.next().as_deref() == Some("extra");
    let artefacts = if extra {
        let mut a = golden::generate_extra::<blsful::Bls12381G1Impl>("pinned-b");
        a.extend(golden::generate_extra::<blsful::Bls12381G2Impl>("pinned-b"));
        a
    } else {
        let mut a = golden::generate::<blsful::Bls12381G1Impl>("pinned");
        a.extend(golden::generate::<blsful::Bls12381G2Impl>("pinned"));
        a
    };
    let corpus = golden::Corpus {
        header: json!({
            "generated_from_commit": commit,
            "library": "blsful 2.5.7",
            "backend": blsful_verif::build_name(),
            "generator": "harness/src/bin/goldengen.rs + harness/src/golden.rs::generate",
            "note": "expectations are derived from the ground truth in each artefact, not from the producing release's behaviour",
            "artefacts": artefacts.len(),
        }),
        artefacts,
    };
    std::fs::write(&out, serde_json::to_vec_pretty(&corpus).unwrap()).expect("write corpus");
    println!("wrote {} artefacts to {out}", corpus.artefacts.len());
}
