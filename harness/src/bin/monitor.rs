//! monitor <ID> --tier quick|thorough --seed N [--workers N] [--bins a,b] [--replay FILE]
//!
//! Parent mode shards the monitor's case groups over worker subprocesses (possibly of several
//! builds of this same harness), merges their reports, applies /verif/known_findings.json,
//! writes /verif/evidence/<ID>.json and replay files, and prints the verdict:
//!   exit 0  held (possibly with KNOWN-FINDING lines)
//!   exit 1  VIOLATION property=<ID> replay=<path>
//!   exit 2  INCONCLUSIVE property=<ID> reason=...

use blsful_verif::{monitors, Ctx, Report, Tier, Violation};
use serde_json::{json, Value};
use std::collections::BTreeMap;
use std::path::PathBuf;
use std::process::{Child, Command, Stdio};
use std::time::{Duration, Instant};

struct Args {
    prop: String,
    tier: Tier,
    seed: u64,
    workers: usize,
    worker: Option<(usize, usize)>,
    out: Option<PathBuf>,
    bins: Vec<String>,
    replay: Option<PathBuf>,
    verif_dir: PathBuf,
    call_log: Option<PathBuf>,
    only_group: Option<u64>,
    no_evidence: bool,
    phase: String,
}

fn parse() -> Args {
    let mut a = Args {
        prop: String::new(),
        tier: Tier::Quick,
        seed: std::env::var("VERIF_SEED")
            .ok()
            .and_then(|s| s.parse().ok())
            .unwrap_or(1),
        workers: std::env::var("VERIF_WORKERS")
            .ok()
            .and_then(|s| s.parse().ok())
            .unwrap_or(16),
        worker: None,
        out: None,
        bins: vec![],
        replay: None,
        verif_dir: PathBuf::from(
            std::env::var("VERIF_DIR").unwrap_or_else(|_| "/verif".to_string()),
        ),
        call_log: None,
        only_group: None,
        no_evidence: false,
        phase: String::new(),
    };
    if std::env::var("VERIF_NO_EVIDENCE").map(|v| v == "1").unwrap_or(false) {
        a.no_evidence = true;
    }
    if let Ok(t) = std::env::var("VERIF_TIER") {
        if t == "thorough" {
            a.tier = Tier::Thorough;
        }
    }
    let mut it = std::env::args().skip(1);
    while let Some(x) = it.next() {
        match x.as_str() {
            "--tier" => {
                a.tier = match it.next().as_deref() {
                    Some("thorough") => Tier::Thorough,
                    _ => Tier::Quick,
                }
            }
            "--seed" => a.seed = it.next().and_then(|s| s.parse().ok()).unwrap_or(1),
            "--workers" => a.workers = it.next().and_then(|s| s.parse().ok()).unwrap_or(16),
            "--worker" => {
                let s = it.next().unwrap_or_default();
                let mut p = s.split('/');
                let k = p.next().and_then(|v| v.parse().ok()).unwrap_or(0);
                let n = p.next().and_then(|v| v.parse().ok()).unwrap_or(1);
                a.worker = Some((k, n));
            }
            "--out" => a.out = it.next().map(PathBuf::from),
            "--bins" => {
                a.bins = it
                    .next()
                    .unwrap_or_default()
                    .split(',')
                    .filter(|s| !s.is_empty())
                    .map(|s| s.to_string())
                    .collect()
            }
            "--replay" => a.replay = it.next().map(PathBuf::from),
            "--call-log" => a.call_log = it.next().map(PathBuf::from),
            "--group" => a.only_group = it.next().and_then(|s| s.parse().ok()),
            "--no-evidence" => a.no_evidence = true,
            "--phase" => a.phase = it.next().unwrap_or_default(),
            s if !s.starts_with("--") && a.prop.is_empty() => a.prop = s.to_string(),
            other => {
                eprintln!("unknown argument {other}");
                std::process::exit(2);
            }
        }
    }
    a
}

fn main() {
    let args = parse();
    blsful_verif::install_panic_hook();
    if let Some((k, n)) = args.worker {
        worker_main(&args, k, n);
        return;
    }
    if let Some(r) = args.replay.clone() {
        replay_main(&args, &r);
        return;
    }
    parent_main(&args);
}

fn worker_main(args: &Args, k: usize, n: usize) {
    let mut ctx = Ctx::new(&args.prop, args.tier, args.seed, k, n);
    ctx.only_group = args.only_group;
    ctx.phase = args.phase.clone();
    let b = ctx.build.clone();
    ctx.note("build", json!(b));
    if let Some(p) = &args.call_log {
        ctx.call_log = std::fs::File::create(p).ok();
    }
    if let Err(e) = monitors::run(&mut ctx) {
        ctx.harness_error(e);
    }
    let rep = ctx.into_report();
    let s = serde_json::to_vec(&rep).expect("serialize report");
    match &args.out {
        Some(p) => std::fs::write(p, s).expect("write report"),
        None => println!("{}", String::from_utf8_lossy(&s)),
    }
}

fn inconclusive(prop: &str, reason: &str) -> ! {
    println!("INCONCLUSIVE property={prop} reason={reason}");
    std::process::exit(2);
}

struct Running {
    child: Child,
    bin: String,
    k: usize,
    out: PathBuf,
    log: PathBuf,
}

fn parent_main(args: &Args) {
    let t0 = Instant::now();
    let prop = args.prop.clone();
    let me = std::env::current_exe()
        .expect("current_exe")
        .to_string_lossy()
        .to_string();
    let bins = if args.bins.is_empty() {
        vec![me]
    } else {
        args.bins.clone()
    };
    let work = args.verif_dir.join("replay").join(".work");
    let _ = std::fs::create_dir_all(&work);
    let watchdog = Duration::from_secs(
        std::env::var("VERIF_WATCHDOG_S")
            .ok()
            .and_then(|s| s.parse().ok())
            .unwrap_or(args.tier.pick(900, 5400)),
    );

    let mut merged = Report::default();
    let mut watchdog_hit = false;
    let mut hung_calls = 0u32;
    let mut builds: Vec<String> = Vec::new();
    let mut per_build_evals: BTreeMap<String, u64> = BTreeMap::new();
    let mut crashed: Vec<String> = Vec::new();
    let n = args.workers.max(1);
    for (bi, bin) in bins.iter().enumerate() {
        let mut running: Vec<Running> = Vec::new();
        for k in 0..n {
            let out = work.join(format!("{prop}-{}-{bi}-{k}.json", std::process::id()));
            let log = work.join(format!("{prop}-{}-{bi}-{k}.calls", std::process::id()));
            let _ = std::fs::remove_file(&out);
            let mut c = Command::new(bin);
            c.arg(&prop)
                .arg("--tier")
                .arg(args.tier.name())
                .arg("--seed")
                .arg(args.seed.to_string())
                .arg("--worker")
                .arg(format!("{k}/{n}"))
                .arg("--out")
                .arg(&out)
                .stdout(Stdio::null())
                .stderr(Stdio::null());
            if prop == "C17" {
                c.arg("--call-log").arg(&log);
            }
            if !args.phase.is_empty() {
                c.arg("--phase").arg(&args.phase);
            }
            match c.spawn() {
                Ok(child) => running.push(Running {
                    child,
                    bin: bin.clone(),
                    k,
                    out,
                    log,
                }),
                Err(e) => inconclusive(&prop, &format!("cannot-spawn-worker:{bin}:{e}")),
            }
        }
        // wait
        let mut build_name = String::new();
        for mut r in running {
            let status = loop {
                match r.child.try_wait() {
                    Ok(Some(s)) => break Some(s),
                    Ok(None) => {
                        if t0.elapsed() > watchdog {
                            let _ = r.child.kill();
                            break None;
                        }
                        std::thread::sleep(Duration::from_millis(20));
                    }
                    Err(_) => break None,
                }
            };
            let Some(status) = status else {
                // the watchdog fired: the worker was killed. Every later worker that is still
                // running is killed by the same test (the deadline has passed), so no process
                // is left behind. For C17 ("never ... loops") a call that was entered and never
                // returned is an observation: the call log is flushed before every call.
                watchdog_hit = true;
                let _ = r.child.wait();
                if prop == "C17" {
                    let text = std::fs::read_to_string(&r.log).unwrap_or_default();
                    let mut open_call: Option<String> = None;
                    for l in text.lines() {
                        if l.contains("\"ev\":\"call\"") {
                            open_call = Some(l.to_string());
                        } else if l.contains("\"ev\":\"ret\"") || l.contains("\"ev\":\"panic\"") {
                            open_call = None;
                        }
                    }
                    if let Some(last) = open_call {
                        let v = serde_json::from_str::<Value>(&last).unwrap_or(Value::Null);
                        let entry = v["entry"].as_str().unwrap_or("<unknown>").to_string();
                        // only a call that has been open for more than a minute counts as hung (no
                        // library call of this workload takes a second); a worker that was merely
                        // still busy when the deadline passed is not an observation
                        let now_ms = std::time::SystemTime::now().duration_since(std::time::UNIX_EPOCH).map(|d| d.as_millis() as u64).unwrap_or(0);
                        let open_for_ms = now_ms.saturating_sub(v["t_ms"].as_u64().unwrap_or(now_ms));
                        if open_for_ms < 60_000 {
                            continue;
                        }
                        hung_calls += 1;
                        merged.violations.push(Violation {
                            signature: format!("hang/{entry}"),
                            group: 0,
                            detail: json!({"what":"the call was entered and had not returned when the watchdog fired","open_for_s":open_for_ms / 1000,"watchdog_s":watchdog.as_secs(),"worker":r.k,"bin":r.bin,"last_call":v}),
                        });
                    }
                }
                continue;
            };
            if !status.success() {
                // a worker that died: for C17 that is itself an observation (abort that
                // escaped catch_unwind); for other properties it is a harness problem
                let last = std::fs::read_to_string(&r.log)
                    .ok()
                    .and_then(|s| {
                        s.lines()
                            .rev()
                            .find(|l| l.contains("\"ev\":\"call\""))
                            .map(|l| l.to_string())
                    })
                    .unwrap_or_default();
                // exit code 101 is a Rust panic that unwound out of main: that can only be the
                // harness's own code (every library call runs under catch_unwind) -> harness error
                let harness_panic = status.code() == Some(101);
                if prop == "C17" && !harness_panic {
                    let entry = serde_json::from_str::<Value>(&last)
                        .ok()
                        .and_then(|v| v["entry"].as_str().map(|s| s.to_string()))
                        .unwrap_or_else(|| "<unknown>".into());
                    merged.violations.push(Violation {
                        signature: format!("abort/{entry}"),
                        group: 0,
                        detail: json!({"worker":r.k,"bin":r.bin,"status":format!("{status:?}"),"last_call":last}),
                    });
                } else {
                    crashed.push(format!("{}#{}:{status:?}", r.bin, r.k));
                }
                continue;
            }
            match std::fs::read(&r.out)
                .ok()
                .and_then(|b| serde_json::from_slice::<Report>(&b).ok())
            {
                Some(mut rep) => {
                    if let Some(Value::String(b)) = rep.notes.get("build") {
                        build_name = b.clone();
                    }
                    // tag violations with the build they were seen in
                    for v in rep.violations.iter_mut() {
                        if let Value::Object(m) = &mut v.detail {
                            m.entry("bin").or_insert(json!(r.bin));
                        }
                    }
                    *per_build_evals.entry(r.bin.clone()).or_insert(0) += rep.evaluations;
                    merged.merge(rep);
                }
                None => crashed.push(format!("{}#{}:no-report", r.bin, r.k)),
            }
            let _ = std::fs::remove_file(&r.out);
            let _ = std::fs::remove_file(&r.log);
        }
        builds.push(if build_name.is_empty() {
            bin.clone()
        } else {
            build_name
        });
    }

    if watchdog_hit && hung_calls == 0 {
        // workers were killed by the watchdog and no call is known to have hung (other
        // properties keep no call log): nothing can be concluded from this run
        inconclusive(&prop, "watchdog");
    }
    if watchdog_hit {
        merged.harness_errors.clear(); // killed workers leave no report; the hang itself is the observation
        crashed.clear();
    }
    finish(args, merged, builds, per_build_evals, crashed, t0);
}

#[derive(serde::Deserialize)]
struct Finding {
    property: String,
    status: String,
    signature: String,
    #[serde(default)]
    what: String,
}

#[derive(serde::Deserialize, Default)]
struct Findings {
    #[serde(default)]
    findings: Vec<Finding>,
}

fn load_findings(dir: &PathBuf) -> Findings {
    std::fs::read(dir.join("known_findings.json"))
        .ok()
        .and_then(|b| serde_json::from_slice(&b).ok())
        .unwrap_or_default()
}

fn sig_matches(pattern: &str, sig: &str) -> bool {
    match pattern.strip_suffix('*') {
        Some(p) => sig.starts_with(p),
        None => pattern == sig,
    }
}

fn finish(
    args: &Args,
    mut merged: Report,
    builds: Vec<String>,
    per_build_evals: BTreeMap<String, u64>,
    crashed: Vec<String>,
    t0: Instant,
) {
    let prop = &args.prop;
    let emit = args.phase == "emit";
    let work = args.verif_dir.join("replay").join(".work").join(prop);
    let _ = std::fs::create_dir_all(&work);
    // the emit phase of a two-phase monitor leaves its own counts for the check phase
    let mut emit_wall = 0.0f64;
    if args.phase == "check" {
        if let Some(v) = std::fs::read(work.join("emit-summary.json")).ok().and_then(|b| serde_json::from_slice::<Value>(&b).ok()) {
            emit_wall = v["wall_s"].as_f64().unwrap_or(0.0);
            merged.notes.insert("emit_phase".into(), v);
        }
    }
    // distinct non-trivial
    merged.fingerprints.sort_unstable();
    merged.fingerprints.dedup();
    let distinct = merged.fingerprints.len() as u64;

    // de-duplicate violations by signature
    let mut by_sig: BTreeMap<String, Violation> = BTreeMap::new();
    for v in merged.violations.drain(..) {
        by_sig.entry(v.signature.clone()).or_insert(v);
    }
    let findings = load_findings(&args.verif_dir);
    let mut known_lines = Vec::new();
    let mut new_violations: Vec<Violation> = Vec::new();
    for (sig, v) in by_sig {
        let k = findings
            .findings
            .iter()
            .find(|f| f.property == *prop && f.status == "known" && sig_matches(&f.signature, &sig));
        match k {
            Some(f) => known_lines.push(format!(
                "KNOWN-FINDING: property={prop} signature={sig} {}",
                f.what
            )),
            None => new_violations.push(v),
        }
    }

    // missing required cells
    let missing: Vec<String> = merged
        .required
        .iter()
        .filter(|c| !emit && merged.cells.get(*c).copied().unwrap_or(0) == 0)
        .cloned()
        .collect();
    if emit {
        let _ = std::fs::write(
            work.join("emit-summary.json"),
            serde_json::to_vec(&json!({"wall_s": t0.elapsed().as_secs_f64(), "evaluations": merged.evaluations,
                "cells": merged.cells, "counters": merged.counters, "builds": builds})).unwrap(),
        );
    }

    // replay files
    let replay_dir = args.verif_dir.join("replay");
    let _ = std::fs::create_dir_all(&replay_dir);
    let mut viol_lines = Vec::new();
    for (i, v) in new_violations.iter().enumerate() {
        let p = replay_dir.join(format!("{prop}-{}-{i}.json", args.seed));
        let body = json!({
            "property": prop, "tier": args.tier.name(), "seed": args.seed,
            "group": v.group, "signature": v.signature, "detail": v.detail,
        });
        let _ = std::fs::write(&p, serde_json::to_vec_pretty(&body).unwrap());
        viol_lines.push(format!(
            "VIOLATION property={prop} replay={} signature={}",
            p.display(),
            v.signature
        ));
    }

    let verdict = if !new_violations.is_empty() {
        "violated"
    } else if !crashed.is_empty()
        || !merged.harness_errors.is_empty()
        || !missing.is_empty()
        || (distinct < 2 && !emit)
    {
        "inconclusive"
    } else {
        "held"
    };

    if !args.no_evidence && !emit {
        let mut samples = merged.samples.clone();
        if samples.is_empty() {
            samples.push(json!({"note":"no sample recorded"}));
        }
        let ev = json!({
            "property_id": prop,
            "tier": args.tier.name(),
            "seed": args.seed,
            "level": "exploration",
            "coverage": {
                "evaluations": merged.evaluations,
                "distinct_nontrivial": distinct,
                "trivial_evaluations": merged.trivial,
                "rule": monitors::rule(prop),
                "samples": samples,
                "exhaustive": false,
                "exhaustive_subspaces": merged.exhaustive,
                "cells": merged.cells,
                "required_cells": merged.required.len(),
                "required_cells_missing": missing,
                "counters": merged.counters,
                "builds": builds,
                "evaluations_per_binary": per_build_evals,
                "notes": merged.notes,
                "trusted_base": monitors::trusted_base(),
                "workers": args.workers,
            },
            "assumptions": monitors::assumptions(prop),
            "wall_s": t0.elapsed().as_secs_f64() + emit_wall,
            "violations": new_violations.len(),
            "known_findings_observed": known_lines,
            "verdict": verdict,
            "harness_errors": merged.harness_errors,
            "crashed_workers": crashed,
        });
        let evdir = args.verif_dir.join("evidence");
        let _ = std::fs::create_dir_all(&evdir);
        let _ = std::fs::write(
            evdir.join(format!("{prop}.json")),
            serde_json::to_vec_pretty(&ev).unwrap(),
        );
    }

    for l in &known_lines {
        println!("{l}");
    }
    println!(
        "{prop} tier={} seed={} verdict={verdict} evaluations={} distinct_nontrivial={} cells={} builds={:?} wall_s={:.1}",
        args.tier.name(),
        args.seed,
        merged.evaluations,
        distinct,
        merged.cells.len(),
        builds,
        t0.elapsed().as_secs_f64()
    );
    if !new_violations.is_empty() {
        for l in viol_lines {
            println!("{l}");
        }
        std::process::exit(1);
    }
    if !crashed.is_empty() {
        inconclusive(prop, &format!("worker-crashed:{}", crashed.join(",")));
    }
    if !merged.harness_errors.is_empty() {
        inconclusive(
            prop,
            &format!("harness-error:{}", merged.harness_errors[0].replace(' ', "_")),
        );
    }
    if !missing.is_empty() {
        inconclusive(
            prop,
            &format!("required-cell-empty:{}", missing[0].replace(' ', "_")),
        );
    }
    if distinct < 2 && !emit {
        inconclusive(prop, "too-few-events");
    }
    std::process::exit(0);
}

fn replay_main(args: &Args, file: &PathBuf) {
    let body: Value = match std::fs::read(file)
        .ok()
        .and_then(|b| serde_json::from_slice(&b).ok())
    {
        Some(v) => v,
        None => inconclusive(&args.prop, "cannot-read-replay-file"),
    };
    let prop = body["property"].as_str().unwrap_or(&args.prop).to_string();
    let tier = if body["tier"].as_str() == Some("thorough") {
        Tier::Thorough
    } else {
        Tier::Quick
    };
    let seed = body["seed"].as_u64().unwrap_or(1);
    let group = body["group"].as_u64().unwrap_or(0);
    let want = body["signature"].as_str().unwrap_or("").to_string();
    let mut ctx = Ctx::new(&prop, tier, seed, 0, 1);
    ctx.only_group = Some(group);
    if let Err(e) = monitors::run(&mut ctx) {
        inconclusive(&prop, &e.replace(' ', "_"));
    }
    let rep = ctx.into_report();
    println!(
        "replay property={prop} group={group} evaluations={} violations={}",
        rep.evaluations,
        rep.violations.len()
    );
    let mut hit = false;
    for v in &rep.violations {
        println!(
            "  observed signature={} detail={}",
            v.signature,
            serde_json::to_string(&v.detail).unwrap_or_default()
        );
        if v.signature == want {
            hit = true;
        }
    }
    if hit {
        println!("VIOLATION property={prop} replay={} signature={want}", file.display());
        std::process::exit(1);
    }
    if !rep.violations.is_empty() {
        println!("VIOLATION property={prop} replay={} signature={}", file.display(), rep.violations[0].signature);
        std::process::exit(1);
    }
    println!("replay: recorded violation not reproduced on the current tree");
    std::process::exit(0);
}
