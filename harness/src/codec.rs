//! uniform access to every exported data type (filled in below)
