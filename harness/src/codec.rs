//! Uniform access to every exported data type of the library: its byte / serde_bare /
//! serde_json codecs, the points and scalars it contains, honest sample values, and the
//! consuming methods a decoded value can be fed to (C15, C16, C17, C18, C19).

use crate::gen;
use crate::refimpl::{Scheme, SCHEMES};
use crate::suite::*;
use blsful::inner_types::{Field, Group};
use blsful::vsss_rs::Share;
use blsful::*;
use rand_chacha::ChaCha20Rng;
use serde::de::DeserializeOwned;
use serde::Serialize;

/// The codecs every data type offers.
pub trait Wire: Sized + Clone + PartialEq + Serialize + DeserializeOwned {
    fn w_bytes(&self) -> Vec<u8>;
    fn w_from(b: &[u8]) -> Result<Self, String>;
    /// the four byte-container conversions: From<T> for Vec<u8>, TryFrom<Vec<u8>>,
    /// TryFrom<&Vec<u8>>, TryFrom<Box<[u8]>>
    fn w_into_vec(self) -> Vec<u8>;
    fn w_from_vec(v: Vec<u8>) -> Result<Self, String>;
    fn w_from_vec_ref(v: &Vec<u8>) -> Result<Self, String>;
    fn w_from_box(v: Box<[u8]>) -> Result<Self, String>;
    fn bare(&self) -> Result<Vec<u8>, String> {
        serde_bare::to_vec(self).map_err(|e| e.to_string())
    }
    fn from_bare(b: &[u8]) -> Result<Self, String> {
        serde_bare::from_slice(b).map_err(|e| e.to_string())
    }
    fn json(&self) -> Result<Vec<u8>, String> {
        serde_json::to_vec(self).map_err(|e| e.to_string())
    }
    fn from_json(b: &[u8]) -> Result<Self, String> {
        serde_json::from_slice(b).map_err(|e| e.to_string())
    }
}

impl<T> Wire for T
where
    T: Clone
        + PartialEq
        + Serialize
        + DeserializeOwned
        + for<'a> TryFrom<&'a [u8], Error = BlsError>
        + TryFrom<Vec<u8>, Error = BlsError>
        + for<'a> TryFrom<&'a Vec<u8>, Error = BlsError>
        + TryFrom<Box<[u8]>, Error = BlsError>
        + Into<Vec<u8>>,
    for<'a> Vec<u8>: From<&'a T>,
{
    fn w_bytes(&self) -> Vec<u8> {
        Vec::from(self)
    }
    fn w_from(b: &[u8]) -> Result<Self, String> {
        T::try_from(b).map_err(|e| e.to_string())
    }
    fn w_into_vec(self) -> Vec<u8> {
        self.into()
    }
    fn w_from_vec(v: Vec<u8>) -> Result<Self, String> {
        T::try_from(v).map_err(|e| e.to_string())
    }
    fn w_from_vec_ref(v: &Vec<u8>) -> Result<Self, String> {
        T::try_from(v).map_err(|e| e.to_string())
    }
    fn w_from_box(v: Box<[u8]>) -> Result<Self, String> {
        T::try_from(v).map_err(|e| e.to_string())
    }
}

#[derive(Copy, Clone, Debug, PartialEq, Eq)]
pub enum PtKind {
    /// a point of the signature group, validated by the decoder
    Sig,
    /// a point of the key group, validated by the decoder
    Pk,
    /// unparsed signature-group payload of a share container (validated on use)
    SigShare,
    /// unparsed key-group payload of a share container (validated on use)
    PkShare,
}

/// Honest material that samples and consumers draw on.
pub struct Env<C: Suite> {
    pub sk: SecretKey<C>,
    pub pk: PublicKey<C>,
    pub sk2: SecretKey<C>,
    pub pk2: PublicKey<C>,
    pub msg: Vec<u8>,
    pub id: Vec<u8>,
    pub shares: Vec<SecretKeyShare<C>>,
    pub pk_shares: Vec<PublicKeyShare<C>>,
    pub y: ProofCommitmentChallenge<C>,
}

impl<C: Suite> Env<C> {
    pub fn new(rng: &mut ChaCha20Rng) -> Self {
        let sk = sk_from_rs::<C>(&gen::random_scalar(rng));
        let sk2 = sk_from_rs::<C>(&gen::random_scalar(rng));
        let shares = sk.split_with_rng(2, 3, &mut *rng).expect("split");
        let pk_shares = shares.iter().map(|s| s.public_key().expect("pk share")).collect();
        Env {
            pk: sk.public_key(),
            pk2: sk2.public_key(),
            sk,
            sk2,
            msg: gen::random_bytes(24, rng),
            id: gen::random_bytes(8, rng),
            shares,
            pk_shares,
            y: ProofCommitmentChallenge::<C>::from_hash(b"env challenge"),
        }
    }
    pub fn sig(&self, s: Scheme) -> Signature<C> {
        self.sk.sign(lscheme(s), &self.msg).expect("sign")
    }
}

pub trait Subject<C: Suite>: Wire + 'static {
    const NAME: &'static str;
    /// encoded length depends only on the type and the group
    const FIXED: bool;
    /// the byte form has one exact length and the decoder must reject every other (C16)
    const EXACT_LEN: bool = false;
    /// label of the enum variant (for the per-variant length table)
    fn variant(&self) -> String {
        String::new()
    }
    /// every point held by the value, re-extracted as compressed bytes
    fn points(&self) -> Vec<(&'static str, PtKind, Vec<u8>)>;
    /// every scalar held by the value that the property requires to be non-zero when imported from bytes
    fn nonzero_scalars(&self) -> Vec<[u8; 32]> {
        vec![]
    }
    /// valid values: honest ones and the edge values of C15
    fn samples(env: &Env<C>, rng: &mut ChaCha20Rng, thorough: bool) -> Vec<(String, Self)>;
    /// feed the value to every consuming method of its type (C17). Must not panic.
    fn consume(&self, env: &Env<C>);
}

pub trait Visitor<C: Suite> {
    fn visit<T: Subject<C>>(&mut self, env: &Env<C>, rng: &mut ChaCha20Rng);
}

/// Visit every exported data type that has the full codec set.
pub fn visit_all<C: Suite, V: Visitor<C>>(v: &mut V, env: &Env<C>, rng: &mut ChaCha20Rng) {
    v.visit::<SecretKey<C>>(env, rng);
    v.visit::<SecretKeyEnum>(env, rng);
    v.visit::<PublicKey<C>>(env, rng);
    v.visit::<Signature<C>>(env, rng);
    v.visit::<AggregateSignature<C>>(env, rng);
    v.visit::<MultiSignature<C>>(env, rng);
    v.visit::<MultiPublicKey<C>>(env, rng);
    v.visit::<ProofOfPossession<C>>(env, rng);
    v.visit::<ProofCommitment<C>>(env, rng);
    v.visit::<ProofCommitmentSecret<C>>(env, rng);
    v.visit::<ProofCommitmentChallenge<C>>(env, rng);
    v.visit::<ProofOfKnowledge<C>>(env, rng);
    v.visit::<ProofOfKnowledgeTimestamp<C>>(env, rng);
    v.visit::<SecretKeyShare<C>>(env, rng);
    v.visit::<PublicKeyShare<C>>(env, rng);
    v.visit::<SignatureShare<C>>(env, rng);
    v.visit::<SignCryptCiphertext<C>>(env, rng);
    v.visit::<SignCryptDecryptionKey<C>>(env, rng);
    v.visit::<SignDecryptionShare<C>>(env, rng);
    v.visit::<TimeCryptCiphertext<C>>(env, rng);
    v.visit::<ElGamalCiphertext<C>>(env, rng);
    v.visit::<ElGamalProof<C>>(env, rng);
    v.visit::<ElGamalDecryptionShare<C>>(env, rng);
    v.visit::<ElGamalDecryptionKey<C>>(env, rng);
    v.visit::<InnerPointShareG1>(env, rng);
    v.visit::<InnerPointShareG2>(env, rng);
}

pub const TYPE_COUNT_WITH_BYTES: usize = 26;

fn sink<T>(t: T) {
    std::hint::black_box(t);
}

fn fmt_sink<T: core::fmt::Debug>(t: &T) {
    sink(format!("{t:?}"));
}

fn disp_sink<T: core::fmt::Display>(t: &T) {
    sink(format!("{t}"));
}

/// keys whose compressed PUBLIC KEY ends with each of the special bytes (found by search with
/// the library's own key derivation; about 256 candidates per byte)
pub fn keys_with_special_pk_tail<C: Suite>() -> Vec<(u8, crate::refimpl::RS)> {
    let mut found: Vec<(u8, crate::refimpl::RS)> = Vec::new();
    let mut i = 0u64;
    while found.len() < gen::SPECIAL_BYTES.len() && i < 200_000 {
        let k = crate::refimpl::RS::from(i + 7) * crate::refimpl::RS::from(0x9e37_79b9_7f4a_7c15u64) + crate::refimpl::RS::from(i);
        let last = *enc_pt(&sk_from_rs::<C>(&k).public_key().0).last().unwrap();
        if gen::SPECIAL_BYTES.contains(&last) && !found.iter().any(|(b, _)| *b == last) {
            found.push((last, k));
        }
        i += 1;
    }
    found
}

/// messages (counter-derived) whose signature under `sk` ends with each of the special bytes
pub fn msgs_with_special_sig_tail<C: Suite>(sk: &SecretKey<C>, s: Scheme) -> Vec<(u8, Vec<u8>)> {
    let mut found: Vec<(u8, Vec<u8>)> = Vec::new();
    let mut i = 0u64;
    while found.len() < gen::SPECIAL_BYTES.len() && i < 200_000 {
        let m = format!("special tail {i}").into_bytes();
        if let Ok(sig) = sk.sign(lscheme(s), &m) {
            let last = *sig_pt_bytes(&sig).last().unwrap();
            if gen::SPECIAL_BYTES.contains(&last) && !found.iter().any(|(b, _)| *b == last) {
                found.push((last, m));
            }
        }
        i += 1;
    }
    found
}

fn edge_sks<C: Suite>(rng: &mut ChaCha20Rng) -> Vec<(String, Sc<C>)> {
    gen::edge_scalars(rng).into_iter().map(|(n, s)| (n.to_string(), sc_from_rs::<C>(&s))).collect()
}

// ------------------------------------------------------------------------------------------
impl<C: Suite> Subject<C> for SecretKey<C> {
    const NAME: &'static str = "SecretKey";
    const FIXED: bool = true;
    const EXACT_LEN: bool = true;
    fn points(&self) -> Vec<(&'static str, PtKind, Vec<u8>)> {
        vec![]
    }
    fn nonzero_scalars(&self) -> Vec<[u8; 32]> {
        vec![sk_be::<C>(self)]
    }
    fn samples(_env: &Env<C>, rng: &mut ChaCha20Rng, _t: bool) -> Vec<(String, Self)> {
        let mut v: Vec<(String, Self)> = edge_sks::<C>(rng).into_iter().map(|(n, s)| (n, SecretKey(s))).collect();
        for b in gen::SPECIAL_BYTES {
            let mut be = [0x11u8; 32];
            be[31] = b;
            if let Some(k) = crate::refimpl::rs_from_be(&be) {
                v.push((format!("be-tail={b:02x}"), SecretKey(sc_from_rs::<C>(&k))));
            }
            let mut be = [0x11u8; 32];
            be[0] = b & 0x3f;
            be[1] = b;
            if let Some(k) = crate::refimpl::rs_from_be(&be) {
                v.push((format!("be-head={b:02x}"), SecretKey(sc_from_rs::<C>(&k))));
            }
        }
        v
    }
    fn consume(&self, env: &Env<C>) {
        sink(self.to_be_bytes());
        sink(self.to_le_bytes());
        fmt_sink(self);
        // in scope for C17: accessors and the DEcrypt functions (signing / encrypting with a
        // decoded key is not among the functions the property quantifies over)
        sink(self.public_key());
        let ct = env.pk.sign_crypt(SignatureSchemes::Basic, &env.msg);
        sink(ct.decrypt(self).is_some().unwrap_u8());
        sink(self.sign_decryption_key::<&[u8]>(&ct).decrypt(&ct).is_some().unwrap_u8());
        if let Ok(e) = env.pk.encrypt_key_el_gamal(&env.sk2) {
            sink(e.decrypt(self));
        }
        if let Ok(p) = env.pk.encrypt_key_el_gamal_with_proof(&env.sk2) {
            sink(p.verify_and_decrypt(self).is_ok());
        }
    }
}

impl<C: Suite> Subject<C> for SecretKeyEnum {
    const NAME: &'static str = "SecretKeyEnum";
    const FIXED: bool = true;
    const EXACT_LEN: bool = true;
    fn variant(&self) -> String {
        match self {
            SecretKeyEnum::G1(_) => "G1".into(),
            SecretKeyEnum::G2(_) => "G2".into(),
        }
    }
    fn points(&self) -> Vec<(&'static str, PtKind, Vec<u8>)> {
        vec![]
    }
    fn nonzero_scalars(&self) -> Vec<[u8; 32]> {
        match self {
            SecretKeyEnum::G1(k) => vec![k.to_be_bytes()],
            SecretKeyEnum::G2(k) => vec![k.to_be_bytes()],
        }
    }
    fn samples(_env: &Env<C>, rng: &mut ChaCha20Rng, _t: bool) -> Vec<(String, Self)> {
        let mut v = Vec::new();
        for (n, s) in gen::edge_scalars(rng) {
            let b = s.to_be_bytes();
            // built from the field element directly, not through a library importer
            let _ = b;
            v.push((format!("G1/{n}"), SecretKeyEnum::G1(SecretKey(sc_from_rs::<Bls12381G1Impl>(&s)))));
            v.push((format!("G2/{n}"), SecretKeyEnum::G2(SecretKey(sc_from_rs::<Bls12381G2Impl>(&s)))));
        }
        v
    }
    fn consume(&self, _env: &Env<C>) {
        sink(self.to_be_bytes());
        sink(self.to_le_bytes());
        fmt_sink(self);
        sink(Vec::from(self));
    }
}

fn pk_consume<C: Suite>(pk: PublicKey<C>, env: &Env<C>) {
    // in scope for C17: every VERIFY function that takes a public key (encrypting to a decoded
    // key is not among the functions the property quantifies over)
    disp_sink(&pk);
    fmt_sink(&pk);
    for s in SCHEMES {
        sink(env.sig(s).verify(&pk, &env.msg).is_ok());
        sink(crate::monitors::util::wrap_agg::<C>(s, *env.sig(s).as_raw_value()).verify(&[(pk, env.msg.clone()), (env.pk2, env.id.clone())]).is_ok());
    }
    sink(env.sk.proof_of_possession().map(|p| p.verify(pk).is_ok()));
    sink(env.pk.encrypt_key_el_gamal_with_proof(&env.sk2).map(|p| p.verify(pk).is_ok()));
    let sig = env.sig(Scheme::Pop);
    sink(ProofCommitment::<C>::generate(&env.msg, sig).and_then(|(c, x)| c.finalize(x, env.y, sig)).map(|p| p.verify(pk, &env.msg, env.y).is_ok()));
    sink(ProofOfKnowledgeTimestamp::<C>::generate(&env.msg, sig).map(|p| p.verify(pk, &env.msg, Some(60_000)).is_ok()));
    sink(MultiPublicKey::<C>::from_public_keys([pk, env.pk2]));
}

impl<C: Suite> Subject<C> for PublicKey<C> {
    const NAME: &'static str = "PublicKey";
    const FIXED: bool = true;
    const EXACT_LEN: bool = true;
    fn points(&self) -> Vec<(&'static str, PtKind, Vec<u8>)> {
        vec![("pk", PtKind::Pk, enc_pt(&self.0))]
    }
    fn samples(env: &Env<C>, rng: &mut ChaCha20Rng, _t: bool) -> Vec<(String, Self)> {
        let mut v = vec![("honest".to_string(), env.pk), ("identity".to_string(), PublicKey(pk_id::<C>())), ("generator".to_string(), PublicKey(pk_gen::<C>()))];
        for (n, s) in edge_sks::<C>(rng) {
            v.push((format!("sk={n}"), SecretKey::<C>(s).public_key()));
        }
        for (b, k) in keys_with_special_pk_tail::<C>() {
            v.push((format!("tail={b:02x}"), sk_from_rs::<C>(&k).public_key()));
        }
        v
    }
    fn consume(&self, env: &Env<C>) {
        pk_consume(*self, env);
    }
}

fn sig_variants<C: Suite, T>(env: &Env<C>, wrap: impl Fn(Scheme, SigPt<C>) -> T) -> Vec<(String, T)> {
    let mut v = Vec::new();
    for s in SCHEMES {
        v.push((format!("{}/honest", s.name()), wrap(s, *env.sig(s).as_raw_value())));
        v.push((format!("{}/identity", s.name()), wrap(s, sig_id::<C>())));
        v.push((format!("{}/generator", s.name()), wrap(s, sig_gen::<C>())));
    }
    v
}

impl<C: Suite> Subject<C> for Signature<C> {
    const NAME: &'static str = "Signature";
    const FIXED: bool = true;
    fn variant(&self) -> String {
        sig_scheme(self).name().into()
    }
    fn points(&self) -> Vec<(&'static str, PtKind, Vec<u8>)> {
        vec![("sig", PtKind::Sig, sig_pt_bytes(self))]
    }
    fn samples(env: &Env<C>, _rng: &mut ChaCha20Rng, _t: bool) -> Vec<(String, Self)> {
        let mut v = sig_variants::<C, _>(env, |s, p| wrap_sig::<C>(s, p));
        for s in SCHEMES {
            for (b, m) in msgs_with_special_sig_tail::<C>(&env.sk, s) {
                v.push((format!("{}/tail={b:02x}", s.name()), env.sk.sign(lscheme(s), &m).expect("sign")));
            }
        }
        v
    }
    fn consume(&self, env: &Env<C>) {
        disp_sink(self);
        fmt_sink(self);
        sink(self.verify(&env.pk, &env.msg).is_ok());
        sink(self.as_raw_value());
        sink(self.same_scheme(&env.sig(Scheme::Basic)));
        sink(AggregateSignature::<C>::from_signatures([*self, env.sig(Scheme::Pop)]).is_ok());
        sink(MultiSignature::<C>::from_signatures([*self, env.sig(Scheme::Pop)]).is_ok());
        for s in SCHEMES {
            if let Ok(ct) = env.pk.encrypt_time_lock(lscheme(s), &env.msg, &env.msg) {
                sink(ct.decrypt(self).is_some().unwrap_u8());
            }
        }
    }
}

impl<C: Suite> Subject<C> for AggregateSignature<C> {
    const NAME: &'static str = "AggregateSignature";
    const FIXED: bool = true;
    fn variant(&self) -> String {
        match self {
            AggregateSignature::Basic(_) => "Basic".into(),
            AggregateSignature::MessageAugmentation(_) => "MessageAugmentation".into(),
            AggregateSignature::ProofOfPossession(_) => "ProofOfPossession".into(),
        }
    }
    fn points(&self) -> Vec<(&'static str, PtKind, Vec<u8>)> {
        let p = match self {
            AggregateSignature::Basic(p) | AggregateSignature::MessageAugmentation(p) | AggregateSignature::ProofOfPossession(p) => p,
        };
        vec![("agg", PtKind::Sig, enc_pt(p))]
    }
    fn samples(env: &Env<C>, _rng: &mut ChaCha20Rng, _t: bool) -> Vec<(String, Self)> {
        sig_variants::<C, _>(env, |s, p| match s {
            Scheme::Basic => AggregateSignature::Basic(p),
            Scheme::Aug => AggregateSignature::MessageAugmentation(p),
            Scheme::Pop => AggregateSignature::ProofOfPossession(p),
        })
    }
    fn consume(&self, env: &Env<C>) {
        disp_sink(self);
        fmt_sink(self);
        let empty: Vec<(PublicKey<C>, Vec<u8>)> = vec![];
        sink(self.verify(&empty).is_ok());
        sink(self.verify(&[(env.pk, env.msg.clone())]).is_ok());
        sink(self.verify(&[(env.pk, env.msg.clone()), (env.pk2, env.msg.clone())]).is_ok());
        sink(self.verify(&[(env.pk, env.msg.clone()), (env.pk2, env.id.clone()), (PublicKey(pk_id::<C>()), vec![])]).is_ok());
    }
}

impl<C: Suite> Subject<C> for MultiSignature<C> {
    const NAME: &'static str = "MultiSignature";
    const FIXED: bool = true;
    fn variant(&self) -> String {
        match self {
            MultiSignature::Basic(_) => "Basic".into(),
            MultiSignature::MessageAugmentation(_) => "MessageAugmentation".into(),
            MultiSignature::ProofOfPossession(_) => "ProofOfPossession".into(),
        }
    }
    fn points(&self) -> Vec<(&'static str, PtKind, Vec<u8>)> {
        vec![("msig", PtKind::Sig, enc_pt(self.as_raw_value()))]
    }
    fn samples(env: &Env<C>, _rng: &mut ChaCha20Rng, _t: bool) -> Vec<(String, Self)> {
        sig_variants::<C, _>(env, |s, p| match s {
            Scheme::Basic => MultiSignature::Basic(p),
            Scheme::Aug => MultiSignature::MessageAugmentation(p),
            Scheme::Pop => MultiSignature::ProofOfPossession(p),
        })
    }
    fn consume(&self, env: &Env<C>) {
        disp_sink(self);
        fmt_sink(self);
        sink(self.as_raw_value());
        sink(self.verify(MultiPublicKey(env.pk.0), &env.msg).is_ok());
        sink(self.verify(MultiPublicKey(pk_id::<C>()), &env.msg).is_ok());
        sink(self.verify(MultiPublicKey::from_public_keys([env.pk, env.pk2]), b"").is_ok());
    }
}

impl<C: Suite> Subject<C> for MultiPublicKey<C> {
    const NAME: &'static str = "MultiPublicKey";
    const FIXED: bool = true;
    const EXACT_LEN: bool = true;
    fn points(&self) -> Vec<(&'static str, PtKind, Vec<u8>)> {
        vec![("mpk", PtKind::Pk, enc_pt(&self.0))]
    }
    fn samples(env: &Env<C>, _rng: &mut ChaCha20Rng, _t: bool) -> Vec<(String, Self)> {
        vec![
            ("two-keys".into(), MultiPublicKey::from_public_keys([env.pk, env.pk2])),
            ("identity".into(), MultiPublicKey(pk_id::<C>())),
            ("one-key".into(), MultiPublicKey(env.pk.0)),
        ]
    }
    fn consume(&self, env: &Env<C>) {
        disp_sink(self);
        fmt_sink(self);
        for s in SCHEMES {
            sink(crate::monitors::util::wrap_multi::<C>(s, *env.sig(s).as_raw_value()).verify(*self, &env.msg).is_ok());
        }
    }
}

impl<C: Suite> Subject<C> for ProofOfPossession<C> {
    const NAME: &'static str = "ProofOfPossession";
    const FIXED: bool = true;
    const EXACT_LEN: bool = true;
    fn points(&self) -> Vec<(&'static str, PtKind, Vec<u8>)> {
        vec![("pop", PtKind::Sig, enc_pt(&self.0))]
    }
    fn samples(env: &Env<C>, _rng: &mut ChaCha20Rng, _t: bool) -> Vec<(String, Self)> {
        vec![
            ("honest".into(), env.sk.proof_of_possession().expect("pop")),
            ("identity".into(), ProofOfPossession(sig_id::<C>())),
            ("generator".into(), ProofOfPossession(sig_gen::<C>())),
        ]
        .into_iter()
        .chain({
            // proofs whose encoding ends with a special byte (search over counter-derived keys)
            let mut found: Vec<(String, ProofOfPossession<C>)> = Vec::new();
            let mut seen: Vec<u8> = Vec::new();
            let mut i = 0u64;
            while seen.len() < gen::SPECIAL_BYTES.len() && i < 100_000 {
                let k = crate::refimpl::RS::from(i + 11) * crate::refimpl::RS::from(0x9e37_79b9_7f4a_7c15u64);
                if let Ok(p) = sk_from_rs::<C>(&k).proof_of_possession() {
                    let last = *enc_pt(&p.0).last().unwrap();
                    if gen::SPECIAL_BYTES.contains(&last) && !seen.contains(&last) {
                        seen.push(last);
                        found.push((format!("tail={last:02x}"), p));
                    }
                }
                i += 1;
            }
            found
        })
        .collect()
    }
    fn consume(&self, env: &Env<C>) {
        disp_sink(self);
        fmt_sink(self);
        sink(self.verify(env.pk).is_ok());
        sink(self.verify(PublicKey(pk_id::<C>())).is_ok());
    }
}

impl<C: Suite> Subject<C> for ProofCommitment<C> {
    const NAME: &'static str = "ProofCommitment";
    const FIXED: bool = true;
    const EXACT_LEN: bool = true;
    fn variant(&self) -> String {
        match self {
            ProofCommitment::Basic(_) => "Basic".into(),
            ProofCommitment::MessageAugmentation(_) => "MessageAugmentation".into(),
            ProofCommitment::ProofOfPossession(_) => "ProofOfPossession".into(),
        }
    }
    fn points(&self) -> Vec<(&'static str, PtKind, Vec<u8>)> {
        let p = match self {
            ProofCommitment::Basic(p) | ProofCommitment::MessageAugmentation(p) | ProofCommitment::ProofOfPossession(p) => p,
        };
        vec![("u", PtKind::Sig, enc_pt(p))]
    }
    fn samples(env: &Env<C>, _rng: &mut ChaCha20Rng, _t: bool) -> Vec<(String, Self)> {
        let mut v = Vec::new();
        for s in SCHEMES {
            let (c, _) = ProofCommitment::<C>::generate(&env.msg, env.sig(s)).expect("commit");
            v.push((format!("{}/honest", s.name()), c));
        }
        v.push(("Basic/identity".into(), ProofCommitment::Basic(sig_id::<C>())));
        v.push(("ProofOfPossession/identity".into(), ProofCommitment::ProofOfPossession(sig_id::<C>())));
        v
    }
    fn consume(&self, env: &Env<C>) {
        disp_sink(self);
        fmt_sink(self);
        for s in SCHEMES {
            let x = ProofCommitmentSecret::<C>(<Sc<C> as Field>::ONE);
            sink(self.finalize(x, env.y, env.sig(s)).map(|p| p.verify(env.pk, &env.msg, env.y).is_ok()));
        }
    }
}

impl<C: Suite> Subject<C> for ProofCommitmentSecret<C> {
    const NAME: &'static str = "ProofCommitmentSecret";
    const FIXED: bool = true;
    const EXACT_LEN: bool = true;
    fn points(&self) -> Vec<(&'static str, PtKind, Vec<u8>)> {
        vec![]
    }
    fn nonzero_scalars(&self) -> Vec<[u8; 32]> {
        vec![self.to_be_bytes()]
    }
    fn samples(_env: &Env<C>, rng: &mut ChaCha20Rng, _t: bool) -> Vec<(String, Self)> {
        edge_sks::<C>(rng).into_iter().map(|(n, s)| (n, ProofCommitmentSecret(s))).collect()
    }
    fn consume(&self, env: &Env<C>) {
        sink(self.to_be_bytes());
        sink(self.to_le_bytes());
        fmt_sink(self);
        let s = env.sig(Scheme::Pop);
        if let Ok((c, _)) = ProofCommitment::<C>::generate(&env.msg, s) {
            sink(c.finalize(*self, env.y, s).map(|p| p.verify(env.pk, &env.msg, env.y).is_ok()));
        }
    }
}

impl<C: Suite> Subject<C> for ProofCommitmentChallenge<C> {
    const NAME: &'static str = "ProofCommitmentChallenge";
    const FIXED: bool = true;
    const EXACT_LEN: bool = true;
    fn points(&self) -> Vec<(&'static str, PtKind, Vec<u8>)> {
        vec![]
    }
    fn nonzero_scalars(&self) -> Vec<[u8; 32]> {
        vec![self.to_be_bytes()]
    }
    fn samples(_env: &Env<C>, rng: &mut ChaCha20Rng, _t: bool) -> Vec<(String, Self)> {
        edge_sks::<C>(rng).into_iter().map(|(n, s)| (n, ProofCommitmentChallenge(s))).collect()
    }
    fn consume(&self, env: &Env<C>) {
        sink(self.to_be_bytes());
        sink(self.to_le_bytes());
        fmt_sink(self);
        let s = env.sig(Scheme::Basic);
        if let Ok((c, x)) = ProofCommitment::<C>::generate(&env.msg, s) {
            sink(c.finalize(x, *self, s).map(|p| p.verify(env.pk, &env.msg, *self).is_ok()));
        }
    }
}

fn pok_parts<C: Suite>(p: &ProofOfKnowledge<C>) -> (Scheme, SigPt<C>, SigPt<C>) {
    match *p {
        ProofOfKnowledge::Basic { u, v } => (Scheme::Basic, u, v),
        ProofOfKnowledge::MessageAugmentation { u, v } => (Scheme::Aug, u, v),
        ProofOfKnowledge::ProofOfPossession { u, v } => (Scheme::Pop, u, v),
    }
}

fn pok_samples<C: Suite>(env: &Env<C>) -> Vec<(String, ProofOfKnowledge<C>)> {
    let mut v = Vec::new();
    for s in SCHEMES {
        let sig = env.sig(s);
        let (c, x) = ProofCommitment::<C>::generate(&env.msg, sig).expect("commit");
        v.push((format!("{}/honest", s.name()), c.finalize(x, env.y, sig).expect("finalize")));
    }
    v.push(("Basic/identity".into(), ProofOfKnowledge::Basic { u: sig_id::<C>(), v: sig_id::<C>() }));
    v.push(("MessageAugmentation/identity-u".into(), ProofOfKnowledge::MessageAugmentation { u: sig_id::<C>(), v: sig_gen::<C>() }));
    v
}

impl<C: Suite> Subject<C> for ProofOfKnowledge<C> {
    const NAME: &'static str = "ProofOfKnowledge";
    const FIXED: bool = true;
    fn variant(&self) -> String {
        pok_parts(self).0.name().into()
    }
    fn points(&self) -> Vec<(&'static str, PtKind, Vec<u8>)> {
        let (_, u, v) = pok_parts(self);
        vec![("u", PtKind::Sig, enc_pt(&u)), ("v", PtKind::Sig, enc_pt(&v))]
    }
    fn samples(env: &Env<C>, _rng: &mut ChaCha20Rng, _t: bool) -> Vec<(String, Self)> {
        pok_samples(env)
    }
    fn consume(&self, env: &Env<C>) {
        disp_sink(self);
        fmt_sink(self);
        sink(self.verify(env.pk, &env.msg, env.y).is_ok());
        sink(self.verify(PublicKey(pk_id::<C>()), b"", ProofCommitmentChallenge(<Sc<C> as Field>::ZERO)).is_ok());
    }
}

impl<C: Suite> Subject<C> for ProofOfKnowledgeTimestamp<C> {
    const NAME: &'static str = "ProofOfKnowledgeTimestamp";
    const FIXED: bool = true;
    fn variant(&self) -> String {
        pok_parts(&self.proof).0.name().into()
    }
    fn points(&self) -> Vec<(&'static str, PtKind, Vec<u8>)> {
        let (_, u, v) = pok_parts(&self.proof);
        vec![("u", PtKind::Sig, enc_pt(&u)), ("v", PtKind::Sig, enc_pt(&v))]
    }
    fn samples(env: &Env<C>, _rng: &mut ChaCha20Rng, _t: bool) -> Vec<(String, Self)> {
        let mut v = Vec::new();
        for s in SCHEMES {
            let p = ProofOfKnowledgeTimestamp::<C>::generate(&env.msg, env.sig(s)).expect("ts proof");
            v.push((format!("{}/honest", s.name()), p));
            v.push((format!("{}/timestamp=0", s.name()), ProofOfKnowledgeTimestamp { proof: p.proof, timestamp: 0 }));
            v.push((format!("{}/timestamp=u64::MAX", s.name()), ProofOfKnowledgeTimestamp { proof: p.proof, timestamp: u64::MAX }));
            v.push((format!("{}/timestamp=127", s.name()), ProofOfKnowledgeTimestamp { proof: p.proof, timestamp: 127 }));
            v.push((format!("{}/timestamp=128", s.name()), ProofOfKnowledgeTimestamp { proof: p.proof, timestamp: 128 }));
        }
        v
    }
    fn consume(&self, env: &Env<C>) {
        disp_sink(self);
        fmt_sink(self);
        for t in [None, Some(0u64), Some(1), Some(1000), Some(u64::MAX)] {
            sink(self.verify(env.pk, &env.msg, t).is_ok());
        }
    }
}

impl<C: Suite> Subject<C> for SecretKeyShare<C> {
    const NAME: &'static str = "SecretKeyShare";
    const FIXED: bool = true;
    fn points(&self) -> Vec<(&'static str, PtKind, Vec<u8>)> {
        vec![]
    }
    fn samples(env: &Env<C>, rng: &mut ChaCha20Rng, _t: bool) -> Vec<(String, Self)> {
        // every share identifier 1..=255
        let all = env.sk.split_with_rng(2, 255, &mut *rng).expect("split 255");
        all.into_iter().map(|s| (format!("id={}", s.0.identifier()), s)).collect()
    }
    fn consume(&self, env: &Env<C>) {
        fmt_sink(self);
        sink(self.as_raw_value());
        sink(self.public_key().is_ok());
        sink(SecretKey::<C>::combine(&[self.clone(), env.shares[0].clone()]).is_ok());
        sink(SecretKey::<C>::combine(&[self.clone()]).is_ok());
        let ct = env.pk.sign_crypt(SignatureSchemes::Basic, &env.msg);
        sink(ct.create_decryption_share(self).is_ok());
    }
}

fn share_ids(thorough: bool) -> Vec<u8> {
    if thorough {
        (1..=255).collect()
    } else {
        vec![1, 2, 3, 127, 128, 254, 255]
    }
}

impl<C: Suite> Subject<C> for PublicKeyShare<C> {
    const NAME: &'static str = "PublicKeyShare";
    const FIXED: bool = true;
    fn points(&self) -> Vec<(&'static str, PtKind, Vec<u8>)> {
        vec![("payload", PtKind::PkShare, self.0.value_vec())]
    }
    fn samples(env: &Env<C>, rng: &mut ChaCha20Rng, t: bool) -> Vec<(String, Self)> {
        let all = env.sk.split_with_rng(3, 255, &mut *rng).expect("split 255");
        let ids = share_ids(t);
        let mut v: Vec<(String, Self)> = all.iter().filter(|s| ids.contains(&s.0.identifier())).map(|s| (format!("id={}", s.0.identifier()), s.public_key().expect("pk share"))).collect();
        v.push(("identity-payload".into(), PublicKeyShare(crate::monitors::util::pk_share_raw::<C>(9, &enc_pt(&pk_id::<C>())))));
        v
    }
    fn consume(&self, env: &Env<C>) {
        disp_sink(self);
        fmt_sink(self);
        for s in [Scheme::Basic, Scheme::Pop] {
            if let Ok(ss) = env.shares[0].sign(lscheme(s), &env.msg) {
                sink(self.verify(&ss, &env.msg).is_ok());
            }
        }
        sink(PublicKey::<C>::from_shares(&[*self, env.pk_shares[0]]).is_ok());
        sink(PublicKey::<C>::from_shares(&[*self]).is_ok());
        let ct = env.pk.sign_crypt(SignatureSchemes::Basic, &env.msg);
        if let Ok(ds) = ct.create_decryption_share(&env.shares[0]) {
            sink(ds.verify(self, &ct).is_ok());
        }
    }
}

impl<C: Suite> Subject<C> for SignatureShare<C> {
    const NAME: &'static str = "SignatureShare";
    const FIXED: bool = true;
    fn variant(&self) -> String {
        match self {
            SignatureShare::Basic(_) => "Basic".into(),
            SignatureShare::MessageAugmentation(_) => "MessageAugmentation".into(),
            SignatureShare::ProofOfPossession(_) => "ProofOfPossession".into(),
        }
    }
    fn points(&self) -> Vec<(&'static str, PtKind, Vec<u8>)> {
        vec![("payload", PtKind::SigShare, self.as_raw_value().value_vec())]
    }
    fn samples(env: &Env<C>, rng: &mut ChaCha20Rng, t: bool) -> Vec<(String, Self)> {
        let all = env.sk.split_with_rng(3, 255, &mut *rng).expect("split 255");
        let ids = share_ids(t);
        let mut v = Vec::new();
        for s in all.iter().filter(|s| ids.contains(&s.0.identifier())) {
            for sch in [Scheme::Basic, Scheme::Pop] {
                v.push((format!("{}/id={}", sch.name(), s.0.identifier()), s.sign(lscheme(sch), &env.msg).expect("partial sign")));
            }
        }
        // the MessageAugmentation variant exists in the type even though shares cannot produce it
        if let SignatureShare::Basic(inner) = v[0].1 {
            v.push(("MessageAugmentation/relabelled".into(), SignatureShare::MessageAugmentation(inner)));
        }
        v
    }
    fn consume(&self, env: &Env<C>) {
        disp_sink(self);
        fmt_sink(self);
        sink(self.as_raw_value());
        sink(self.verify(&env.pk_shares[0], &env.msg).is_ok());
        sink(self.same_scheme(self));
        sink(Signature::<C>::from_shares(&[*self]).is_ok());
        if let Ok(o) = env.shares[1].sign(SignatureSchemes::Basic, &env.msg) {
            sink(Signature::<C>::from_shares(&[*self, o]).is_ok());
            sink(Signature::<C>::from_shares(&[o, *self]).is_ok());
        }
    }
}

impl<C: Suite> Subject<C> for SignCryptCiphertext<C> {
    const NAME: &'static str = "SignCryptCiphertext";
    const FIXED: bool = false;
    fn variant(&self) -> String {
        rscheme(self.scheme).name().into()
    }
    fn points(&self) -> Vec<(&'static str, PtKind, Vec<u8>)> {
        vec![("u", PtKind::Pk, enc_pt(&self.u)), ("w", PtKind::Sig, enc_pt(&self.w))]
    }
    fn samples(env: &Env<C>, rng: &mut ChaCha20Rng, t: bool) -> Vec<(String, Self)> {
        let mut v = Vec::new();
        for s in SCHEMES {
            for len in [0usize, 1, 24, 127, 128, 200] {
                v.push((format!("{}/len={len}", s.name()), env.pk.sign_crypt(lscheme(s), gen::random_bytes(len, rng))));
            }
        }
        v.push(("Basic/len=65536".into(), env.pk.sign_crypt(SignatureSchemes::Basic, gen::random_bytes(65536, rng))));
        if t {
            v.push(("ProofOfPossession/len=16384".into(), env.pk.sign_crypt(SignatureSchemes::ProofOfPossession, gen::random_bytes(16384, rng))));
        }
        let mut c = v[0].1.clone();
        c.u = pk_id::<C>();
        c.w = sig_id::<C>();
        c.v.clear();
        v.push(("Basic/identity-points-empty-payload".into(), c));
        v
    }
    fn consume(&self, env: &Env<C>) {
        disp_sink(self);
        fmt_sink(self);
        sink(self.is_valid().unwrap_u8());
        sink(self.decrypt(&env.sk).is_some().unwrap_u8());
        sink(self.decrypt(&env.sk2).is_some().unwrap_u8());
        sink(env.sk.sign_decryption_key::<&[u8]>(self).decrypt(self).is_some().unwrap_u8());
        let ds: Vec<SignDecryptionShare<C>> = env.shares.iter().filter_map(|s| self.create_decryption_share(s).ok()).collect();
        sink(self.decrypt_with_shares(&ds).is_some().unwrap_u8());
        let none: Vec<SignDecryptionShare<C>> = vec![];
        sink(self.decrypt_with_shares(&none).is_some().unwrap_u8());
        if !ds.is_empty() {
            sink(self.decrypt_with_shares(&ds[..1]).is_some().unwrap_u8());
            sink(ds[0].verify(&env.pk_shares[0], self).is_ok());
        }
        sink(SignCryptDecryptionKey::<C>::from_shares(&ds).map(|k| k.decrypt(self).is_some().unwrap_u8()));
    }
}

impl<C: Suite> Subject<C> for SignCryptDecryptionKey<C> {
    const NAME: &'static str = "SignCryptDecryptionKey";
    const FIXED: bool = true;
    fn points(&self) -> Vec<(&'static str, PtKind, Vec<u8>)> {
        vec![("key", PtKind::Pk, enc_pt(&self.0))]
    }
    fn samples(env: &Env<C>, _rng: &mut ChaCha20Rng, _t: bool) -> Vec<(String, Self)> {
        let ct = env.pk.sign_crypt(SignatureSchemes::Basic, &env.msg);
        vec![("honest".into(), env.sk.sign_decryption_key::<&[u8]>(&ct)), ("identity".into(), SignCryptDecryptionKey(pk_id::<C>()))]
    }
    fn consume(&self, env: &Env<C>) {
        fmt_sink(self);
        for s in SCHEMES {
            let ct = env.pk.sign_crypt(lscheme(s), &env.msg);
            sink(self.decrypt(&ct).is_some().unwrap_u8());
        }
    }
}

impl<C: Suite> Subject<C> for SignDecryptionShare<C> {
    const NAME: &'static str = "SignDecryptionShare";
    const FIXED: bool = true;
    fn points(&self) -> Vec<(&'static str, PtKind, Vec<u8>)> {
        vec![("payload", PtKind::PkShare, self.0.value_vec())]
    }
    fn samples(env: &Env<C>, _rng: &mut ChaCha20Rng, _t: bool) -> Vec<(String, Self)> {
        let ct = env.pk.sign_crypt(SignatureSchemes::Basic, &env.msg);
        env.shares.iter().map(|s| (format!("id={}", s.0.identifier()), ct.create_decryption_share(s).expect("share"))).collect()
    }
    fn consume(&self, env: &Env<C>) {
        fmt_sink(self);
        for s in SCHEMES {
            let ct = env.pk.sign_crypt(lscheme(s), &env.msg);
            sink(self.verify(&env.pk_shares[0], &ct).is_ok());
            sink(ct.decrypt_with_shares(&[self.clone()]).is_some().unwrap_u8());
            if let Ok(o) = ct.create_decryption_share(&env.shares[1]) {
                sink(ct.decrypt_with_shares(&[self.clone(), o.clone()]).is_some().unwrap_u8());
                sink(SignCryptDecryptionKey::<C>::from_shares(&[self.clone(), o]).is_ok());
            }
        }
        sink(SignCryptDecryptionKey::<C>::from_shares(&[self.clone()]).is_ok());
    }
}

impl<C: Suite> Subject<C> for TimeCryptCiphertext<C> {
    const NAME: &'static str = "TimeCryptCiphertext";
    const FIXED: bool = false;
    fn variant(&self) -> String {
        rscheme(self.scheme).name().into()
    }
    fn points(&self) -> Vec<(&'static str, PtKind, Vec<u8>)> {
        vec![("u", PtKind::Pk, enc_pt(&self.u))]
    }
    fn samples(env: &Env<C>, rng: &mut ChaCha20Rng, _t: bool) -> Vec<(String, Self)> {
        let mut v = Vec::new();
        for s in SCHEMES {
            for len in [0usize, 1, 24, 127, 128, 200] {
                v.push((format!("{}/len={len}", s.name()), env.pk.encrypt_time_lock(lscheme(s), gen::random_bytes(len, rng), &env.id).expect("time lock")));
            }
        }
        v.push(("Basic/len=65536".into(), env.pk.encrypt_time_lock(SignatureSchemes::Basic, gen::random_bytes(65536, rng), b"").expect("time lock")));
        let mut c = v[0].1.clone();
        c.u = pk_id::<C>();
        c.w.clear();
        v.push(("Basic/identity-u-empty-payload".into(), c));
        v
    }
    fn consume(&self, env: &Env<C>) {
        fmt_sink(self);
        for s in SCHEMES {
            sink(self.decrypt(&env.sk.sign(lscheme(s), &env.id).expect("sign")).is_some().unwrap_u8());
            sink(self.decrypt(&wrap_sig::<C>(s, sig_id::<C>())).is_some().unwrap_u8());
        }
    }
}

impl<C: Suite> Subject<C> for ElGamalCiphertext<C> {
    const NAME: &'static str = "ElGamalCiphertext";
    const FIXED: bool = true;
    fn points(&self) -> Vec<(&'static str, PtKind, Vec<u8>)> {
        vec![("c1", PtKind::Pk, enc_pt(&self.c1)), ("c2", PtKind::Pk, enc_pt(&self.c2))]
    }
    fn samples(env: &Env<C>, _rng: &mut ChaCha20Rng, _t: bool) -> Vec<(String, Self)> {
        vec![
            ("honest".into(), env.pk.encrypt_key_el_gamal(&env.sk2).expect("elgamal")),
            ("identity".into(), ElGamalCiphertext { c1: pk_id::<C>(), c2: pk_id::<C>() }),
        ]
    }
    fn consume(&self, env: &Env<C>) {
        disp_sink(self);
        fmt_sink(self);
        sink(self.decrypt(&env.sk));
        sink(*self + *self);
        sink(ElGamalDecryptionKey::<C>(pk_id::<C>()).decrypt(self));
    }
}

impl<C: Suite> Subject<C> for ElGamalProof<C> {
    const NAME: &'static str = "ElGamalProof";
    const FIXED: bool = true;
    fn points(&self) -> Vec<(&'static str, PtKind, Vec<u8>)> {
        vec![("c1", PtKind::Pk, enc_pt(&self.ciphertext.c1)), ("c2", PtKind::Pk, enc_pt(&self.ciphertext.c2))]
    }
    fn samples(env: &Env<C>, _rng: &mut ChaCha20Rng, _t: bool) -> Vec<(String, Self)> {
        let p = env.pk.encrypt_key_el_gamal_with_proof(&env.sk2).expect("elgamal proof");
        let mut z = p;
        z.message_proof = <Sc<C> as Field>::ONE;
        z.blinder_proof = -<Sc<C> as Field>::ONE;
        vec![("honest".into(), p), ("edge-scalars".into(), z)]
    }
    fn consume(&self, env: &Env<C>) {
        disp_sink(self);
        fmt_sink(self);
        sink(self.verify(env.pk).is_ok());
        sink(self.verify(PublicKey(pk_id::<C>())).is_ok());
        sink(self.verify_and_decrypt(&env.sk).is_ok());
        sink(self.verify_and_decrypt(&SecretKey(<Sc<C> as Field>::ZERO)).is_ok());
    }
}

impl<C: Suite> Subject<C> for ElGamalDecryptionShare<C> {
    const NAME: &'static str = "ElGamalDecryptionShare";
    const FIXED: bool = true;
    fn points(&self) -> Vec<(&'static str, PtKind, Vec<u8>)> {
        vec![("payload", PtKind::PkShare, self.0.value_vec())]
    }
    fn samples(env: &Env<C>, _rng: &mut ChaCha20Rng, _t: bool) -> Vec<(String, Self)> {
        let ct = env.pk.encrypt_key_el_gamal(&env.sk2).expect("elgamal");
        env.shares
            .iter()
            .map(|s| (format!("id={}", s.0.identifier()), ElGamalDecryptionShare(<C as BlsSignatureCore>::public_key_share_with_generator(&s.0, ct.c1).expect("share"))))
            .collect()
    }
    fn consume(&self, env: &Env<C>) {
        fmt_sink(self);
        sink(ElGamalDecryptionKey::<C>::from_shares(&[self.clone()]).is_ok());
        let ct = env.pk.encrypt_key_el_gamal(&env.sk2).expect("elgamal");
        if let Ok(o) = <C as BlsSignatureCore>::public_key_share_with_generator(&env.shares[1].0, ct.c1) {
            sink(ElGamalDecryptionKey::<C>::from_shares(&[self.clone(), ElGamalDecryptionShare(o)]).map(|k| k.decrypt(&ct)));
        }
    }
}

impl<C: Suite> Subject<C> for ElGamalDecryptionKey<C> {
    const NAME: &'static str = "ElGamalDecryptionKey";
    const FIXED: bool = true;
    fn points(&self) -> Vec<(&'static str, PtKind, Vec<u8>)> {
        vec![("key", PtKind::Pk, enc_pt(&self.0))]
    }
    fn samples(env: &Env<C>, _rng: &mut ChaCha20Rng, _t: bool) -> Vec<(String, Self)> {
        let ct = env.pk.encrypt_key_el_gamal(&env.sk2).expect("elgamal");
        vec![("honest".into(), ElGamalDecryptionKey(ct.c1 * env.sk.0)), ("identity".into(), ElGamalDecryptionKey(pk_id::<C>()))]
    }
    fn consume(&self, env: &Env<C>) {
        let ct = env.pk.encrypt_key_el_gamal(&env.sk2).expect("elgamal");
        sink(self.decrypt(&ct));
    }
}

fn g1_share_samples<C: Suite>(env: &Env<C>) -> Vec<Vec<u8>> {
    // whichever of the two containers of this suite is the 49-byte one
    let a = Vec::from(&env.pk_shares[0]);
    let b = env.shares[0].sign(SignatureSchemes::Basic, &env.msg).map(|s| s.as_raw_value().value_vec()).unwrap_or_default();
    let mut out = vec![a];
    let mut sb = vec![env.shares[0].0.identifier()];
    sb.extend_from_slice(&b);
    out.push(sb);
    out
}

impl<C: Suite> Subject<C> for InnerPointShareG1 {
    const NAME: &'static str = "InnerPointShareG1";
    const FIXED: bool = true;
    const EXACT_LEN: bool = true;
    fn points(&self) -> Vec<(&'static str, PtKind, Vec<u8>)> {
        vec![]
    }
    fn samples(env: &Env<C>, _rng: &mut ChaCha20Rng, _t: bool) -> Vec<(String, Self)> {
        let mut v: Vec<(String, Self)> = g1_share_samples(env).into_iter().filter(|b| b.len() == 49).map(|b| ("honest".to_string(), InnerPointShareG1(b.try_into().unwrap()))).collect();
        v.push(("zero".into(), InnerPointShareG1([0u8; 49])));
        v.push(("ones".into(), InnerPointShareG1([0xffu8; 49])));
        v
    }
    fn consume(&self, _env: &Env<C>) {
        disp_sink(self);
        fmt_sink(self);
        sink(format!("{self:x} {self:X}"));
        sink(self.identifier());
        sink(self.value_vec());
        sink(bool::from(Share::is_zero(self)));
        sink(self.as_group_element::<blsful::inner_types::G1Projective>().is_ok());
    }
}

impl<C: Suite> Subject<C> for InnerPointShareG2 {
    const NAME: &'static str = "InnerPointShareG2";
    const FIXED: bool = true;
    const EXACT_LEN: bool = true;
    fn points(&self) -> Vec<(&'static str, PtKind, Vec<u8>)> {
        vec![]
    }
    fn samples(env: &Env<C>, _rng: &mut ChaCha20Rng, _t: bool) -> Vec<(String, Self)> {
        let mut v: Vec<(String, Self)> = g1_share_samples(env).into_iter().filter(|b| b.len() == 97).map(|b| ("honest".to_string(), InnerPointShareG2(b.try_into().unwrap()))).collect();
        v.push(("zero".into(), InnerPointShareG2([0u8; 97])));
        v.push(("ones".into(), InnerPointShareG2([0xffu8; 97])));
        v
    }
    fn consume(&self, _env: &Env<C>) {
        disp_sink(self);
        fmt_sink(self);
        sink(format!("{self:x} {self:X}"));
        sink(self.identifier());
        sink(self.value_vec());
        sink(bool::from(Share::is_zero(self)));
        sink(self.as_group_element::<blsful::inner_types::G2Projective>().is_ok());
    }
}

/// generator multiples used as "some valid point"
pub fn some_pk_point<C: Suite>(k: u64) -> PkPt<C> {
    pk_gen::<C>() * <Sc<C> as From<u64>>::from(k)
}

pub fn some_sig_point<C: Suite>(k: u64) -> SigPt<C> {
    sig_gen::<C>() * <Sc<C> as From<u64>>::from(k)
}

#[allow(dead_code)]
fn _assert_group<C: Suite>() {
    let _ = <PkPt<C> as Group>::identity();
}
