//! Generators: edge scalars, message length classes and contents, byte mutators.

use crate::refimpl::{self, RS};
use bls12_381_plus::ff::Field;
use rand_core::RngCore;

/// Edge scalars E of DESIGN.md: 1, 2, 3, r-1, r-2, 2^254, (2^255-19) mod r, (r-1)/2,
/// hash-derived, uniformly random.
pub fn edge_scalars(rng: &mut impl RngCore) -> Vec<(&'static str, RS)> {
    let one = RS::ONE;
    let two = one + one;
    let mut p254 = one;
    for _ in 0..254 {
        p254 = p254 + p254;
    }
    let p255_19 = p254 + p254 - RS::from(19u64);
    let half: RS = Option::<RS>::from(two.invert()).unwrap();
    let mut seed = [0u8; 32];
    rng.fill_bytes(&mut seed);
    vec![
        ("1", one),
        ("2", two),
        ("3", two + one),
        ("r-1", -one),
        ("r-2", -two),
        ("2^254", p254),
        ("2^255-19 mod r", p255_19),
        ("(r-1)/2", (-one) * half),
        ("hash-derived", refimpl::keygen(b"edge-scalar-hash-derived")),
        ("random", random_scalar(rng)),
    ]
}

/// Key for the idx-th case of a monitor whose keys are otherwise random: every fourth case takes
/// one of the deterministic edge scalars (1, 2, 3, r-1, r-2, 2^254, 2^255-19 mod r, (r-1)/2) so
/// that every entry point also sees keys such as 1 (public key = generator) and r-1.
pub fn key_for(idx: u64, rng: &mut impl RngCore) -> RS {
    let r = random_scalar(rng); // always drawn, so the rest of the case's stream does not shift
    if idx % 4 == 0 {
        let e = edge_scalars(&mut rand_chacha_dummy());
        e[((idx / 4) % 8) as usize].1
    } else {
        r
    }
}

fn rand_chacha_dummy() -> impl RngCore {
    struct Z;
    impl RngCore for Z {
        fn next_u32(&mut self) -> u32 { 7 }
        fn next_u64(&mut self) -> u64 { 7 }
        fn fill_bytes(&mut self, d: &mut [u8]) { for x in d.iter_mut() { *x = 7; } }
        fn try_fill_bytes(&mut self, d: &mut [u8]) -> Result<(), rand_core::Error> { self.fill_bytes(d); Ok(()) }
    }
    Z
}

/// Scalars at the magnitudes where word-sized fast paths, limb boundaries and byte-pattern tests
/// change behaviour: 2^k - 1, 2^k, 2^k + 1 for k at byte / word / limb boundaries, and k * 2^248
/// (only the most significant byte set).
pub fn magnitude_scalars() -> Vec<(String, RS)> {
    let mut out = Vec::new();
    let one = RS::ONE;
    let mut p = one; // 2^k
    for k in 1..=254u32 {
        p = p + p;
        if [8u32, 16, 31, 32, 33, 63, 64, 65, 127, 128, 129, 191, 192, 193, 248, 253, 254].contains(&k) {
            out.push((format!("2^{k}-1"), p - one));
            out.push((format!("2^{k}"), p));
            out.push((format!("2^{k}+1"), p + one));
        }
        if k == 248 {
            out.push(("3*2^248".to_string(), p + p + p));
            out.push(("0x73*2^248".to_string(), p * RS::from(0x73u64)));
        }
    }
    out.push(("255".to_string(), RS::from(255u64)));
    out.push(("0xdeadbeefcafef00d".to_string(), RS::from(0xdead_beef_cafe_f00du64)));
    out.push(("u64::MAX".to_string(), RS::from(u64::MAX)));
    out
}

/// Message lengths at which pk || msg (augmentation: 48- or 96-byte public key) crosses a
/// one-byte or two-byte length boundary.
pub const LENGTHS_PK_BOUNDARY: &[usize] = &[159, 160, 161, 207, 208, 209];

pub fn random_scalar(rng: &mut impl RngCore) -> RS {
    loop {
        let mut wide = [0u8; 64];
        rng.fill_bytes(&mut wide);
        let s = RS::from_bytes_wide(&wide);
        if !bool::from(s.is_zero()) {
            return s;
        }
    }
}

/// Length classes L of DESIGN.md (127/128 and 16383/16384 are where the LEB128 length prefix
/// grows by a byte).
pub const LENGTHS_FULL: &[usize] = &[
    0, 1, 31, 32, 33, 127, 128, 129, 255, 256, 257, 4096, 16383, 16384, 16385, 65535, 65536,
];
pub const LENGTHS_QUICK: &[usize] = &[0, 1, 31, 32, 33, 127, 128, 129, 255, 256, 257, 4096];
pub const LENGTHS_SMALL: &[usize] = &[0, 1, 31, 32, 33, 128, 257];

#[derive(Copy, Clone, Debug)]
pub enum Content {
    Zero,
    Ones,
    Counter,
    Random,
    /// starts like a multi-byte LEB128 number (0xff x 8, 0x01): when a flipped length prefix
    /// runs on into the message, the message bytes are read as part of the length
    VarintLike,
}

pub const CONTENTS: [Content; 4] = [
    Content::Zero,
    Content::Ones,
    Content::Counter,
    Content::Random,
];

pub fn message(len: usize, c: Content, rng: &mut impl RngCore) -> Vec<u8> {
    match c {
        Content::Zero => vec![0u8; len],
        Content::Ones => vec![0xffu8; len],
        Content::Counter => (0..len).map(|i| i as u8).collect(),
        Content::VarintLike => (0..len).map(|i| if i < 8 { 0xff } else if i == 8 { 0x01 } else { i as u8 }).collect(),
        Content::Random => {
            let mut v = vec![0u8; len];
            rng.fill_bytes(&mut v);
            v
        }
    }
}

pub fn random_bytes(len: usize, rng: &mut impl RngCore) -> Vec<u8> {
    let mut v = vec![0u8; len];
    rng.fill_bytes(&mut v);
    v
}

pub fn below(rng: &mut impl RngCore, n: usize) -> usize {
    if n == 0 {
        0
    } else {
        (rng.next_u64() % n as u64) as usize
    }
}

pub fn flip_bit(b: &[u8], bit: usize) -> Vec<u8> {
    let mut v = b.to_vec();
    v[bit / 8] ^= 1 << (bit % 8);
    v
}

pub fn shuffle<T>(v: &mut [T], rng: &mut impl RngCore) {
    for i in (1..v.len()).rev() {
        let j = below(rng, i + 1);
        v.swap(i, j);
    }
}

/// All subsets of {0..n} as bitmasks, in increasing order.
pub fn subsets(n: usize) -> impl Iterator<Item = Vec<usize>> {
    (0u32..(1u32 << n)).map(move |m| (0..n).filter(|i| m & (1 << i) != 0).collect())
}

/// Byte values that text-oriented or C-string-oriented handling treats specially: NUL, newline,
/// carriage return, space, quote, backslash, DEL, 0x80, 0xff. Values whose ENCODING ends (or
/// starts) with one of these are searched for and used as edge samples.
pub const SPECIAL_BYTES: [u8; 9] = [0x00, 0x0a, 0x0d, 0x20, 0x22, 0x5c, 0x7f, 0x80, 0xff];

/// 32-byte big-endian strings around the group order: encodings of zero (0, r, 2r), of small
/// values (1, r+1), the largest canonical value (r-1), and large non-canonical values.
pub fn special_scalar_encodings() -> Vec<(&'static str, [u8; 32])> {
    let h = |s: &str| -> [u8; 32] { hex::decode(s).unwrap().try_into().unwrap() };
    vec![
        ("0", [0u8; 32]),
        ("1", h("0000000000000000000000000000000000000000000000000000000000000001")),
        ("r-1", h("73eda753299d7d483339d80809a1d80553bda402fffe5bfeffffffff00000000")),
        ("r", h("73eda753299d7d483339d80809a1d80553bda402fffe5bfeffffffff00000001")),
        ("r+1", h("73eda753299d7d483339d80809a1d80553bda402fffe5bfeffffffff00000002")),
        ("2r", h("e7db4ea6533afa906673b0101343b00aa77b4805fffcb7fdfffffffe00000002")),
        ("2r+1", h("e7db4ea6533afa906673b0101343b00aa77b4805fffcb7fdfffffffe00000003")),
        ("2^255", h("8000000000000000000000000000000000000000000000000000000000000000")),
        ("2^256-1", [0xffu8; 32]),
    ]
}
