//! Artefacts with ground truth: produced by one build / release of the library, judged by
//! another (C18: pinned release -> current tree; C19: blst backend <-> pure-Rust backend).
//!
//! An artefact carries the three encodings of one or several values of one data type plus
//! the GROUND TRUTH needed to judge them (secret keys, messages, identifiers, plaintexts,
//! challenges). Expectations are derived from that ground truth on the consuming side, never
//! from the producing side's behaviour, so a corpus does not fossilise the producer's defects.

use crate::codec::Wire;
use crate::monitors::util::*;
use crate::refimpl::{self, Scheme, RC, RG, RS, SCHEMES};
use crate::suite::*;
use crate::{hx, Ctx};
use blsful::*;
use rand_chacha::ChaCha20Rng;
use rand_core::SeedableRng;
use serde::{Deserialize, Serialize};
use serde_json::{json, Value};
use sha2::{Digest, Sha256};

#[derive(Serialize, Deserialize, Clone, Debug)]
pub struct Enc {
    pub bytes: String,
    pub bare: String,
    pub json: String,
}

#[derive(Serialize, Deserialize, Clone, Debug)]
pub struct Artefact {
    pub suite: String,
    pub kind: String,
    pub scheme: String,
    pub label: String,
    pub items: Vec<Enc>,
    pub truth: Value,
    #[serde(default)]
    pub flags: Vec<String>,
}

#[derive(Serialize, Deserialize, Clone, Debug)]
pub struct Corpus {
    pub header: Value,
    pub artefacts: Vec<Artefact>,
}

fn enc<T: Wire>(x: &T) -> Enc {
    Enc {
        bytes: hex::encode(x.w_bytes()),
        bare: hex::encode(x.bare().unwrap_or_default()),
        json: String::from_utf8(x.json().unwrap_or_default()).unwrap_or_default(),
    }
}

fn h(b: &[u8]) -> String {
    hex::encode(b)
}

fn uh(v: &Value) -> Vec<u8> {
    hex::decode(v.as_str().unwrap_or("")).unwrap_or_default()
}

fn key(label: &str, i: u32) -> RS {
    refimpl::keygen(format!("golden key {label} {i}").as_bytes())
}

fn scheme_of(name: &str) -> Scheme {
    match name {
        "Basic" => Scheme::Basic,
        "MessageAugmentation" => Scheme::Aug,
        _ => Scheme::Pop,
    }
}

fn aug_or_plain<C: Suite>(s: Scheme, pk: &PublicKey<C>, m: &[u8]) -> Vec<u8> {
    if s == Scheme::Aug {
        let mut v = pk_bytes(pk);
        v.extend_from_slice(m);
        v
    } else {
        m.to_vec()
    }
}

/// Produce the artefact set with the library under test (whatever tree / backend this
/// harness was built against). `tag` separates key material of different productions.
pub fn generate<C: Suite>(tag: &str) -> Vec<Artefact> {
    let n = C::NAME.to_string();
    let mut out: Vec<Artefact> = Vec::new();
    let k = key(tag, 0);
    let sk = sk_from_rs::<C>(&k);
    let pk = sk.public_key();
    let skb = h(&k.to_be_bytes());
    let msg = format!("golden message / {tag}").into_bytes();
    let id = format!("golden id / {tag}").into_bytes();
    let mut split_rng = ChaCha20Rng::from_seed(Sha256::digest(format!("golden split {tag}")).into());
    let mut push = |kind: &str, scheme: &str, label: &str, items: Vec<Enc>, truth: Value, flags: Vec<String>| {
        out.push(Artefact { suite: n.clone(), kind: kind.into(), scheme: scheme.into(), label: label.into(), items, truth, flags });
    };

    // ---- keys
    push("secret_key", "", "honest", vec![enc(&sk)], json!({"sk": skb}), vec![]);
    push("public_key", "", "honest", vec![enc(&pk)], json!({"sk": skb}), vec![]);
    {
        let e = match C::CURVE {
            Bls12381::G1 => SecretKeyEnum::G1(SecretKey(sc_from_rs::<Bls12381G1Impl>(&k))),
            Bls12381::G2 => SecretKeyEnum::G2(SecretKey(sc_from_rs::<Bls12381G2Impl>(&k))),
        };
        let mut flags = vec![];
        let eb = Vec::from(&e);
        if SecretKeyEnum::try_from(eb.as_slice()).ok() != Some(e.clone()) {
            flags.push("bytes_self_inconsistent_at_generation".to_string());
        }
        push("secret_key_enum", "", "honest", vec![enc(&e)], json!({"sk": skb, "curve": C::CURVE.to_string()}), flags);
    }
    push("proof_of_possession", "", "honest", vec![enc(&sk.proof_of_possession().expect("pop"))], json!({"sk": skb}), vec![]);

    // ---- shares of the key
    let (t, nn) = (3usize, 5usize);
    let shares = sk.split_with_rng(t, nn, &mut split_rng).expect("split");
    let share_hex: Vec<String> = shares.iter().map(|s| h(&Vec::from(s))).collect();
    push("secret_key_share_set", "", "3-of-5", shares.iter().map(enc).collect(), json!({"sk": skb, "t": t}), vec![]);
    let pks: Vec<PublicKeyShare<C>> = shares.iter().map(|s| s.public_key().expect("pk share")).collect();
    push("public_key_share_set", "", "3-of-5", pks.iter().map(enc).collect(), json!({"sk": skb, "t": t}), vec![]);
    push("inner_share", "", "pk-share-payload", vec![], json!({}), vec![]);

    for s in SCHEMES {
        let sn = s.name();
        let ls_ = lscheme(s);
        // ---- signatures
        let sig = sk.sign(ls_, &msg).expect("sign");
        push("signature", sn, "honest", vec![enc(&sig)], json!({"sk": skb, "msg": h(&msg)}), vec![]);
        // aggregate of three signers over distinct messages
        let ks: Vec<RS> = (1..=3).map(|i| key(tag, i)).collect();
        let msgs: Vec<Vec<u8>> = (0..3).map(|i| format!("agg message {i} / {tag}").into_bytes()).collect();
        let sigs: Vec<Signature<C>> = ks.iter().zip(&msgs).map(|(k, m)| sk_from_rs::<C>(k).sign(ls_, m).expect("sign")).collect();
        let agg = AggregateSignature::<C>::from_signatures(&sigs).expect("aggregate");
        push("aggregate_signature", sn, "3 signers", vec![enc(&agg)], json!({"sks": ks.iter().map(|k| h(&k.to_be_bytes())).collect::<Vec<_>>(), "msgs": msgs.iter().map(|m| h(m)).collect::<Vec<_>>()}), vec![]);
        if tag.starts_with("c19") {
            let ks: Vec<RS> = (100..140).map(|i| key(tag, i)).collect();
            let msgs: Vec<Vec<u8>> = (0..40).map(|i| format!("large agg message {i} / {tag}").into_bytes()).collect();
            let sigs: Vec<Signature<C>> = ks.iter().zip(&msgs).map(|(k, m)| sk_from_rs::<C>(k).sign(ls_, m).expect("sign")).collect();
            let agg = AggregateSignature::<C>::from_signatures(&sigs).expect("aggregate");
            push("aggregate_signature", sn, "40 signers", vec![enc(&agg)], json!({"sks": ks.iter().map(|k| h(&k.to_be_bytes())).collect::<Vec<_>>(), "msgs": msgs.iter().map(|m| h(m)).collect::<Vec<_>>()}), vec![]);
        }
        if s != Scheme::Aug {
            let sigs: Vec<Signature<C>> = ks.iter().map(|k| sk_from_rs::<C>(k).sign(ls_, &msg).expect("sign")).collect();
            let ms = MultiSignature::<C>::from_signatures(&sigs).expect("multi");
            let mpk = MultiPublicKey::<C>::from_public_keys(ks.iter().map(|k| sk_from_rs::<C>(k).public_key()).collect::<Vec<_>>());
            push("multi_signature", sn, "3 signers", vec![enc(&ms)], json!({"sks": ks.iter().map(|k| h(&k.to_be_bytes())).collect::<Vec<_>>(), "msg": h(&msg)}), vec![]);
            push("multi_public_key", sn, "3 signers", vec![enc(&mpk)], json!({"sks": ks.iter().map(|k| h(&k.to_be_bytes())).collect::<Vec<_>>()}), vec![]);
            // signature shares
            let parts: Vec<SignatureShare<C>> = shares.iter().map(|x| x.sign(ls_, &msg).expect("partial")).collect();
            push("signature_share_set", sn, "3-of-5", parts.iter().map(enc).collect(), json!({"sk": skb, "msg": h(&msg), "t": t, "sk_shares": share_hex}), vec![]);
        }
        // ---- proofs of knowledge (Aug through the caller-side workaround)
        let pmsg = aug_or_plain::<C>(s, &pk, &msg);
        let y = ProofCommitmentChallenge::<C>::from_hash(format!("golden challenge {tag}").as_bytes());
        let (com, x) = ProofCommitment::<C>::generate(&pmsg, sig).expect("commit");
        push("proof_commitment", sn, "honest", vec![enc(&com)], json!({}), vec![]);
        push("proof_commitment_secret", sn, "honest", vec![enc(&x)], json!({}), vec![]);
        push("proof_commitment_challenge", sn, "from_hash", vec![enc(&y)], json!({"seed": h(format!("golden challenge {tag}").as_bytes())}), vec![]);
        let pok = com.finalize(x, y, sig).expect("finalize");
        push("proof_of_knowledge", sn, "honest", vec![enc(&pok)], json!({"sk": skb, "msg": h(&pmsg), "y": h(&y.to_be_bytes())}), vec![]);
        let tp = ProofOfKnowledgeTimestamp::<C>::generate(&pmsg, sig).expect("ts proof");
        push("proof_of_knowledge_timestamp", sn, "honest", vec![enc(&tp)], json!({"sk": skb, "msg": h(&pmsg), "timestamp": tp.timestamp}), vec![]);
        // ---- signcryption
        for (li, m) in [msg.clone(), vec![], vec![0x5au8; 200]].iter().enumerate() {
            let ct = pk.sign_crypt(ls_, m);
            push("signcrypt_ciphertext", sn, &format!("len={}", m.len()), vec![enc(&ct)], json!({"sk": skb, "msg": h(m)}), vec![]);
            if li == 0 {
                let dk = sk.sign_decryption_key::<&[u8]>(&ct);
                push("signcrypt_decryption_key", sn, "honest", vec![enc(&dk)], json!({"ct": h(&Vec::from(&ct)), "msg": h(m)}), vec![]);
                let ds: Vec<SignDecryptionShare<C>> = shares.iter().map(|x| ct.create_decryption_share(x).expect("share")).collect();
                push("sign_decryption_share_set", sn, "3-of-5", ds.iter().map(enc).collect(), json!({"ct": h(&Vec::from(&ct)), "msg": h(m), "t": t, "sk_shares": share_hex}), vec![]);
            }
        }
        // ---- time-lock
        for m in [msg.clone(), vec![], vec![0xa5u8; 200]] {
            let ct = pk.encrypt_time_lock(ls_, &m, &id).expect("time lock");
            let honest = sk.sign(ls_, &id).expect("sign id");
            let mut truth = json!({"sk": skb, "msg": h(&m), "id": h(&id), "opens_with": "sign(scheme, id)"});
            let mut flags = vec![];
            if ct_some(ct.decrypt(&honest)).as_deref() != Some(&m[..]) {
                // the producing release sealed against H(id) with this scheme's tag
                flags.push("honest_signature_did_not_open_at_generation".to_string());
                truth["opens_with"] = json!("core_sign(sk, id, scheme tag) relabelled");
            }
            push("timelock_ciphertext", sn, &format!("len={}", m.len()), vec![enc(&ct)], truth, flags);
        }
    }
    // ---- ElGamal
    let mk = key(tag, 9);
    let msk = sk_from_rs::<C>(&mk);
    let eg = pk.encrypt_key_el_gamal(&msk).expect("elgamal");
    push("elgamal_ciphertext", "", "honest", vec![enc(&eg)], json!({"sk": skb, "m": h(&mk.to_be_bytes())}), vec![]);
    let egp = pk.encrypt_key_el_gamal_with_proof(&msk).expect("elgamal proof");
    push("elgamal_proof", "", "honest", vec![enc(&egp)], json!({"sk": skb, "m": h(&mk.to_be_bytes())}), vec![]);
    let es: Vec<ElGamalDecryptionShare<C>> = shares
        .iter()
        .map(|x| ElGamalDecryptionShare(<C as BlsSignatureCore>::public_key_share_with_generator(&x.0, eg.c1).expect("share")))
        .collect();
    push("elgamal_decryption_share_set", "", "3-of-5", es.iter().map(enc).collect(), json!({"ct": h(&Vec::from(&eg)), "m": h(&mk.to_be_bytes()), "t": t}), vec![]);
    push("elgamal_decryption_key", "", "honest", vec![enc(&ElGamalDecryptionKey::<C>(eg.c1 * sk.0))], json!({"ct": h(&Vec::from(&eg)), "m": h(&mk.to_be_bytes())}), vec![]);
    // the empty placeholder pushed above is filled here (inner shares are the raw containers)
    out.retain(|a| a.kind != "inner_share");
    out
}

/// A second artefact set (corpus B): corners that the first set does not contain - a
/// caller-supplied ElGamal generator, the largest share identifiers, a 40-signer aggregate,
/// long payloads, an extreme challenge.
pub fn generate_extra<C: Suite>(tag: &str) -> Vec<Artefact> {
    let n = C::NAME.to_string();
    let mut out: Vec<Artefact> = Vec::new();
    let k = key(tag, 50);
    let sk = sk_from_rs::<C>(&k);
    let pk = sk.public_key();
    let skb = h(&k.to_be_bytes());
    let msg = format!("golden-b message / {tag}").into_bytes();
    let mut split_rng = ChaCha20Rng::from_seed(Sha256::digest(format!("golden-b split {tag}")).into());
    let mut push = |kind: &str, scheme: &str, label: &str, items: Vec<Enc>, truth: Value, flags: Vec<String>| {
        out.push(Artefact { suite: n.clone(), kind: kind.into(), scheme: scheme.into(), label: label.into(), items, truth, flags });
    };
    // ElGamal proof over a caller-supplied generator (trait-level API)
    {
        let hk = key(tag, 51);
        let hpt = pk_gen::<C>() * sc_from_rs::<C>(&hk);
        let mk = key(tag, 52);
        let rng = ChaCha20Rng::from_seed(Sha256::digest(format!("golden-b elgamal {tag}")).into());
        if let Ok((c1, c2, mp, bp, ch)) = <C as BlsElGamal>::seal_scalar_with_proof(pk.0, sc_from_rs::<C>(&mk), Some(hpt), None, rng) {
            let p = ElGamalProof::<C> { ciphertext: ElGamalCiphertext { c1, c2 }, message_proof: mp, blinder_proof: bp, challenge: ch };
            push("elgamal_proof_custom_generator", "", "h = k*P", vec![enc(&p)], json!({"sk": skb, "m": h(&mk.to_be_bytes()), "generator": h(&enc_pt(&hpt))}), vec![]);
        }
    }
    // the two largest identifiers of a 2-of-255 split
    let all = sk.split_with_rng(2, 255, &mut split_rng).expect("split 255");
    let top: Vec<SecretKeyShare<C>> = all[253..].to_vec();
    let top_hex: Vec<String> = top.iter().map(|s| h(&Vec::from(s))).collect();
    push("secret_key_share_set", "", "ids 254,255 of 2-of-255", top.iter().map(enc).collect(), json!({"sk": skb, "t": 2}), vec![]);
    let pks: Vec<PublicKeyShare<C>> = top.iter().map(|s| s.public_key().expect("pk share")).collect();
    push("public_key_share_set", "", "ids 254,255 of 2-of-255", pks.iter().map(enc).collect(), json!({"sk": skb, "t": 2}), vec![]);
    for s in SCHEMES {
        let sn = s.name();
        let ls_ = lscheme(s);
        if s != Scheme::Aug {
            let parts: Vec<SignatureShare<C>> = top.iter().map(|x| x.sign(ls_, &msg).expect("partial")).collect();
            push("signature_share_set", sn, "ids 254,255 of 2-of-255", parts.iter().map(enc).collect(), json!({"sk": skb, "msg": h(&msg), "t": 2, "sk_shares": top_hex}), vec![]);
        }
        let ct = pk.sign_crypt(ls_, &msg);
        let ds: Vec<SignDecryptionShare<C>> = top.iter().map(|x| ct.create_decryption_share(x).expect("share")).collect();
        push("sign_decryption_share_set", sn, "ids 254,255 of 2-of-255", ds.iter().map(enc).collect(), json!({"ct": h(&Vec::from(&ct)), "msg": h(&msg), "t": 2, "sk_shares": top_hex}), vec![]);
        // long payloads
        for len in [130usize, 16384] {
            let m = vec![0xc3u8; len];
            let ct = pk.sign_crypt(ls_, &m);
            push("signcrypt_ciphertext", sn, &format!("len={len}"), vec![enc(&ct)], json!({"sk": skb, "msg": h(&m)}), vec![]);
        }
        {
            let m = vec![0x3cu8; 1000];
            let id: Vec<u8> = vec![];
            let ct = pk.encrypt_time_lock(ls_, &m, &id).expect("time lock");
            let honest = sk.sign(ls_, &id).expect("sign id");
            let mut truth = json!({"sk": skb, "msg": h(&m), "id": "", "opens_with": "sign(scheme, id)"});
            let mut flags = vec![];
            if ct_some(ct.decrypt(&honest)).as_deref() != Some(&m[..]) {
                flags.push("honest_signature_did_not_open_at_generation".to_string());
                truth["opens_with"] = json!("core_sign(sk, id, scheme tag) relabelled");
            }
            push("timelock_ciphertext", sn, "len=1000,empty id", vec![enc(&ct)], truth, flags);
        }
        // 40-signer aggregate (pairing products with more than 32 terms)
        let ks: Vec<RS> = (100..140).map(|i| key(tag, i)).collect();
        let msgs: Vec<Vec<u8>> = (0..40).map(|i| format!("large agg message {i} / {tag}").into_bytes()).collect();
        let sigs: Vec<Signature<C>> = ks.iter().zip(&msgs).map(|(k, m)| sk_from_rs::<C>(k).sign(ls_, m).expect("sign")).collect();
        let agg = AggregateSignature::<C>::from_signatures(&sigs).expect("aggregate");
        push("aggregate_signature", sn, "40 signers", vec![enc(&agg)], json!({"sks": ks.iter().map(|k| h(&k.to_be_bytes())).collect::<Vec<_>>(), "msgs": msgs.iter().map(|m| h(m)).collect::<Vec<_>>()}), vec![]);
        // proof of knowledge with the extreme challenge r-1
        let sig = sk.sign(ls_, &msg).expect("sign");
        let pmsg = aug_or_plain::<C>(s, &pk, &msg);
        let y = ProofCommitmentChallenge::<C>(sc_from_rs::<C>(&(-RS::from(1u64))));
        let (com, x) = ProofCommitment::<C>::generate(&pmsg, sig).expect("commit");
        let pok = com.finalize(x, y, sig).expect("finalize");
        push("proof_of_knowledge", sn, "challenge r-1", vec![enc(&pok)], json!({"sk": skb, "msg": h(&pmsg), "y": h(&y.to_be_bytes())}), vec![]);
    }
    out
}

// ------------------------------------------------------------------------------------------
// consuming side
// ------------------------------------------------------------------------------------------

struct J<'a> {
    ctx: &'a mut Ctx,
    prop: String,
    origin: String,
}

impl<'a> J<'a> {
    fn fail(&mut self, a: &Artefact, what: &str, extra: Value) {
        let sig = format!("{}/{}/{}/{}{}/{}", self.prop, self.origin, a.suite, a.kind, if a.scheme.is_empty() { String::new() } else { format!("/{}", a.scheme) }, what.split(':').next().unwrap_or(what));
        self.ctx.violation(&sig, json!({"what": what, "origin": self.origin, "suite": a.suite, "kind": a.kind, "scheme": a.scheme, "label": a.label, "truth": a.truth, "flags": a.flags, "first_item": a.items.first(), "extra": extra}));
    }

    /// decode the three recorded encodings of one item, require agreement and byte-stable re-encoding
    fn dec3<T: Wire>(&mut self, a: &Artefact, e: &Enc) -> Option<T> {
        let skip_bytes = a.flags.iter().any(|f| f == "bytes_self_inconsistent_at_generation");
        let bytes = hex::decode(&e.bytes).unwrap_or_default();
        let bare = hex::decode(&e.bare).unwrap_or_default();
        let tn = &a.kind;
        let vb = self.ctx.guard(&format!("golden::{tn}::bare"), || json!({"bare": e.bare}), || T::from_bare(&bare));
        let vj = self.ctx.guard(&format!("golden::{tn}::json"), || json!({"json": e.json}), || T::from_json(e.json.as_bytes()));
        let (Some(vb), Some(vj)) = (vb, vj) else { return None };
        let vb = match vb {
            Ok(v) => v,
            Err(err) => {
                self.fail(a, "no-longer-decodes:serde_bare", json!({"error": err}));
                return None;
            }
        };
        match vj {
            Ok(v) => {
                if v != vb {
                    self.fail(a, "encodings-disagree:json-vs-bare", json!({}));
                }
                let re = v.json().unwrap_or_default();
                if re != e.json.as_bytes() {
                    self.fail(a, "reencoding-differs:serde_json", json!({"now": String::from_utf8_lossy(&re), "recorded": e.json}));
                }
            }
            Err(err) => self.fail(a, "no-longer-decodes:serde_json", json!({"error": err})),
        }
        if vb.bare().unwrap_or_default() != bare {
            self.fail(a, "reencoding-differs:serde_bare", json!({"now": h(&vb.bare().unwrap_or_default()), "recorded": e.bare}));
        }
        if !skip_bytes {
            match self.ctx.guard(&format!("golden::{tn}::bytes"), || json!({"bytes": e.bytes}), || T::w_from(&bytes)) {
                Some(Ok(v)) => {
                    if v != vb {
                        self.fail(a, "encodings-disagree:bytes-vs-bare", json!({}));
                    }
                    if v.w_bytes() != bytes {
                        self.fail(a, "reencoding-differs:bytes", json!({"now": h(&v.w_bytes()), "recorded": e.bytes}));
                    }
                }
                Some(Err(err)) => self.fail(a, "no-longer-decodes:bytes", json!({"error": err})),
                None => {}
            }
        } else {
            self.ctx.count("golden/bytes-form-skipped(self-inconsistent at generation)", 1);
        }
        Some(vb)
    }

    fn truth_ok(&mut self, a: &Artefact, ok: bool, what: &str, extra: Value) {
        // C19 is about the two backends agreeing with EACH OTHER; what the independent reference
        // thinks of an artefact is C18's business and must not raise a C19 alarm
        if self.prop == "C19" && what.contains("reference") {
            return;
        }
        if !ok {
            self.fail(a, what, extra);
        }
    }
}

fn sk_of<C: Suite>(v: &Value) -> Option<(RS, SecretKey<C>)> {
    let k = refimpl::rs_from_be(&uh(v))?;
    Some((k, sk_from_rs::<C>(&k)))
}

fn shares_of<C: Suite>(v: &Value) -> Vec<SecretKeyShare<C>> {
    v.as_array().map(|a| a.iter().filter_map(|x| SecretKeyShare::<C>::try_from(uh(x).as_slice()).ok()).collect()).unwrap_or_default()
}

/// Judge one artefact against its ground truth with the library this harness is built against.
pub fn check<C: Suite>(ctx: &mut Ctx, prop: &str, origin: &str, a: &Artefact) {
    if a.suite != C::NAME {
        return;
    }
    let cell = format!("{origin}/{}/{}{}", a.suite, a.kind, if a.scheme.is_empty() { String::new() } else { format!("/{}", a.scheme) });
    let fpd: Vec<u8> = a.items.iter().flat_map(|e| e.bare.as_bytes().to_vec()).collect();
    let mut j = J { ctx, prop: prop.to_string(), origin: origin.to_string() };
    let s = scheme_of(&a.scheme);
    let t = &a.truth;
    let gen_hm = |m: &RS| refimpl::elgamal_generator::<C::R>().mul(m).enc();
    match a.kind.as_str() {
        "secret_key" => {
            if let (Some(v), Some((k, _))) = (j.dec3::<SecretKey<C>>(a, &a.items[0]), sk_of::<C>(&t["sk"])) {
                j.truth_ok(a, v.to_be_bytes() == k.to_be_bytes(), "wrong-value", json!({}));
            }
        }
        "secret_key_enum" => {
            if let (Some(v), Some((k, _))) = (j.dec3::<SecretKeyEnum>(a, &a.items[0]), sk_of::<C>(&t["sk"])) {
                let ok = match (&v, C::CURVE) {
                    (SecretKeyEnum::G1(x), Bls12381::G1) => x.to_be_bytes() == k.to_be_bytes(),
                    (SecretKeyEnum::G2(x), Bls12381::G2) => x.to_be_bytes() == k.to_be_bytes(),
                    _ => false,
                };
                j.truth_ok(a, ok, "wrong-value", json!({}));
            }
        }
        "public_key" => {
            if let (Some(v), Some((k, sk))) = (j.dec3::<PublicKey<C>>(a, &a.items[0]), sk_of::<C>(&t["sk"])) {
                j.truth_ok(a, v == sk.public_key() && pk_bytes(&v) == refimpl::sk_to_pk::<C::R>(&k).enc(), "wrong-value", json!({}));
            }
        }
        "proof_of_possession" => {
            if let (Some(v), Some((k, sk))) = (j.dec3::<ProofOfPossession<C>>(a, &a.items[0]), sk_of::<C>(&t["sk"])) {
                j.truth_ok(a, v.verify(sk.public_key()).is_ok(), "no-longer-verifies", json!({}));
                j.truth_ok(a, Vec::from(&v) == refimpl::pop_prove::<C::R>(&k).enc(), "differs-from-reference", json!({}));
                j.truth_ok(a, sk.proof_of_possession().ok().map(|p| Vec::from(&p)) == Some(Vec::from(&v)), "current-tree-produces-other-bytes", json!({}));
            }
        }
        "signature" => {
            if let (Some(v), Some((k, sk))) = (j.dec3::<Signature<C>>(a, &a.items[0]), sk_of::<C>(&t["sk"])) {
                let m = uh(&t["msg"]);
                j.truth_ok(a, v.verify(&sk.public_key(), &m).is_ok(), "no-longer-verifies", json!({}));
                j.truth_ok(a, refimpl::verify::<C::R>(s, &pk_bytes(&sk.public_key()), &sig_pt_bytes(&v), &m), "reference-rejects", json!({}));
                j.truth_ok(a, sig_scheme(&v) == s, "wrong-variant", json!({}));
                j.truth_ok(a, sk.sign(lscheme(s), &m).ok().map(|x| Vec::from(&x)) == Some(Vec::from(&v)), "current-tree-produces-other-bytes", json!({}));
                let _ = k;
            }
        }
        "aggregate_signature" => {
            if let Some(v) = j.dec3::<AggregateSignature<C>>(a, &a.items[0]) {
                let sks: Vec<SecretKey<C>> = t["sks"].as_array().map(|x| x.iter().filter_map(|k| sk_of::<C>(k).map(|p| p.1)).collect()).unwrap_or_default();
                let msgs: Vec<Vec<u8>> = t["msgs"].as_array().map(|x| x.iter().map(uh).collect()).unwrap_or_default();
                let data: Vec<(PublicKey<C>, Vec<u8>)> = sks.iter().map(|k| k.public_key()).zip(msgs).collect();
                j.truth_ok(a, v.verify(&data).is_ok() && agg_scheme(&v) == s, "no-longer-verifies", json!({}));
            }
        }
        "multi_signature" => {
            if let Some(v) = j.dec3::<MultiSignature<C>>(a, &a.items[0]) {
                let sks: Vec<SecretKey<C>> = t["sks"].as_array().map(|x| x.iter().filter_map(|k| sk_of::<C>(k).map(|p| p.1)).collect()).unwrap_or_default();
                let mpk = MultiPublicKey::<C>::from_public_keys(sks.iter().map(|k| k.public_key()).collect::<Vec<_>>());
                j.truth_ok(a, v.verify(mpk, uh(&t["msg"])).is_ok(), "no-longer-verifies", json!({}));
            }
        }
        "multi_public_key" => {
            if let Some(v) = j.dec3::<MultiPublicKey<C>>(a, &a.items[0]) {
                let sks: Vec<RS> = t["sks"].as_array().map(|x| x.iter().filter_map(|k| refimpl::rs_from_be(&uh(k))).collect()).unwrap_or_default();
                let sum = refimpl::sum(sks.iter().map(|k| refimpl::sk_to_pk::<C::R>(k)));
                j.truth_ok(a, enc_pt(&v.0) == sum.enc(), "wrong-value", json!({}));
            }
        }
        "secret_key_share_set" => {
            let vs: Vec<SecretKeyShare<C>> = a.items.iter().filter_map(|e| j.dec3::<SecretKeyShare<C>>(a, e)).collect();
            if let Some((k, _)) = sk_of::<C>(&t["sk"]) {
                let tt = t["t"].as_u64().unwrap_or(2) as usize;
                if vs.len() == a.items.len() {
                    let first = SecretKey::<C>::combine(&vs[..tt]).ok().map(|x| x.to_be_bytes());
                    let last = SecretKey::<C>::combine(&vs[vs.len() - tt..]).ok().map(|x| x.to_be_bytes());
                    j.truth_ok(a, first == Some(k.to_be_bytes()) && last == Some(k.to_be_bytes()), "no-longer-recombines", json!({}));
                }
            }
        }
        "public_key_share_set" => {
            let vs: Vec<PublicKeyShare<C>> = a.items.iter().filter_map(|e| j.dec3::<PublicKeyShare<C>>(a, e)).collect();
            if let Some((_, sk)) = sk_of::<C>(&t["sk"]) {
                let tt = t["t"].as_u64().unwrap_or(2) as usize;
                if vs.len() == a.items.len() {
                    let first = PublicKey::<C>::from_shares(&vs[..tt]).ok();
                    let last = PublicKey::<C>::from_shares(&vs[vs.len() - tt..]).ok();
                    j.truth_ok(a, first == Some(sk.public_key()) && last == Some(sk.public_key()), "no-longer-recombines", json!({}));
                }
            }
        }
        "signature_share_set" => {
            let vs: Vec<SignatureShare<C>> = a.items.iter().filter_map(|e| j.dec3::<SignatureShare<C>>(a, e)).collect();
            if let Some((_, sk)) = sk_of::<C>(&t["sk"]) {
                let tt = t["t"].as_u64().unwrap_or(2) as usize;
                let m = uh(&t["msg"]);
                if vs.len() == a.items.len() {
                    let whole = sk.sign(lscheme(s), &m).ok().map(|x| Vec::from(&x));
                    let first = Signature::<C>::from_shares(&vs[..tt]).ok().map(|x| Vec::from(&x));
                    let last = Signature::<C>::from_shares(&vs[vs.len() - tt..]).ok().map(|x| Vec::from(&x));
                    j.truth_ok(a, first == whole && last == whole && whole.is_some(), "no-longer-recombines", json!({}));
                    let sks = shares_of::<C>(&t["sk_shares"]);
                    for (sh, ss) in sks.iter().zip(&vs) {
                        let ok = sh.public_key().map(|p| p.verify(ss, &m).is_ok()).unwrap_or(false);
                        j.truth_ok(a, ok, "share-no-longer-verifies", json!({}));
                    }
                }
            }
        }
        "proof_commitment" => {
            j.dec3::<ProofCommitment<C>>(a, &a.items[0]);
        }
        "proof_commitment_secret" => {
            j.dec3::<ProofCommitmentSecret<C>>(a, &a.items[0]);
        }
        "proof_commitment_challenge" => {
            if let Some(v) = j.dec3::<ProofCommitmentChallenge<C>>(a, &a.items[0]) {
                let again = ProofCommitmentChallenge::<C>::from_hash(uh(&t["seed"]));
                j.truth_ok(a, again == v, "from_hash-produces-other-value", json!({}));
            }
        }
        "proof_of_knowledge" => {
            if let (Some(v), Some((k, sk))) = (j.dec3::<ProofOfKnowledge<C>>(a, &a.items[0]), sk_of::<C>(&t["sk"])) {
                let yb = uh(&t["y"]);
                let y = ProofCommitmentChallenge::<C>::try_from(yb.as_slice());
                let m = uh(&t["msg"]);
                match y {
                    Ok(y) => {
                        j.truth_ok(a, v.verify(sk.public_key(), &m, y).is_ok(), "no-longer-verifies", json!({}));
                        let (u, vv) = match v {
                            ProofOfKnowledge::Basic { u, v } | ProofOfKnowledge::MessageAugmentation { u, v } | ProofOfKnowledge::ProofOfPossession { u, v } => (u, v),
                        };
                        let ok = match (r_sig::<C>(&u), r_sig::<C>(&vv), refimpl::rs_from_be(&yb)) {
                            (Some(u), Some(vv), Some(yr)) => refimpl::pok_verify::<C::R>(u, vv, refimpl::sk_to_pk::<C::R>(&k), &yr, &m, <C::R as RC>::dst(s)),
                            _ => false,
                        };
                        j.truth_ok(a, ok, "reference-rejects", json!({}));
                    }
                    Err(_) => j.fail(a, "challenge-no-longer-decodes", json!({})),
                }
            }
        }
        "proof_of_knowledge_timestamp" => {
            if let (Some(v), Some((k, sk))) = (j.dec3::<ProofOfKnowledgeTimestamp<C>>(a, &a.items[0]), sk_of::<C>(&t["sk"])) {
                let m = uh(&t["msg"]);
                j.truth_ok(a, v.timestamp == t["timestamp"].as_u64().unwrap_or(0), "wrong-timestamp", json!({"decoded": v.timestamp}));
                j.truth_ok(a, v.verify(sk.public_key(), &m, None).is_ok(), "no-longer-verifies", json!({}));
                let (u, vv) = match v.proof {
                    ProofOfKnowledge::Basic { u, v } | ProofOfKnowledge::MessageAugmentation { u, v } | ProofOfKnowledge::ProofOfPossession { u, v } => (u, v),
                };
                if let (Some(u), Some(vv)) = (r_sig::<C>(&u), r_sig::<C>(&vv)) {
                    let y = refimpl::pok_y::<C::R>(u, v.timestamp);
                    j.truth_ok(a, refimpl::pok_verify::<C::R>(u, vv, refimpl::sk_to_pk::<C::R>(&k), &y, &m, <C::R as RC>::dst(s)), "reference-rejects", json!({}));
                }
            }
        }
        "signcrypt_ciphertext" => {
            if let (Some(v), Some((k, sk))) = (j.dec3::<SignCryptCiphertext<C>>(a, &a.items[0]), sk_of::<C>(&t["sk"])) {
                let m = uh(&t["msg"]);
                j.truth_ok(a, bool::from(v.is_valid()), "no-longer-valid", json!({}));
                j.truth_ok(a, ct_some(v.decrypt(&sk)).as_deref() == Some(&m[..]), "no-longer-decrypts", json!({}));
                j.truth_ok(a, rscheme(v.scheme) == s, "wrong-scheme", json!({}));
                let ro = match (r_pk::<C>(&v.u), r_sig::<C>(&v.w)) {
                    (Some(u), Some(w)) => refimpl::signcrypt_open::<C::R>(&k, u, &v.v, w, <C::R as RC>::dst(s)),
                    _ => None,
                };
                j.truth_ok(a, ro.as_deref() == Some(&m[..]), "reference-cannot-open", json!({}));
            }
        }
        "signcrypt_decryption_key" => {
            if let Some(v) = j.dec3::<SignCryptDecryptionKey<C>>(a, &a.items[0]) {
                match SignCryptCiphertext::<C>::try_from(uh(&t["ct"]).as_slice()) {
                    Ok(ct) => j.truth_ok(a, ct_some(v.decrypt(&ct)).as_deref() == Some(&uh(&t["msg"])[..]), "no-longer-decrypts", json!({})),
                    Err(_) => j.fail(a, "ciphertext-no-longer-decodes", json!({})),
                }
            }
        }
        "sign_decryption_share_set" => {
            let vs: Vec<SignDecryptionShare<C>> = a.items.iter().filter_map(|e| j.dec3::<SignDecryptionShare<C>>(a, e)).collect();
            let tt = t["t"].as_u64().unwrap_or(2) as usize;
            let m = uh(&t["msg"]);
            if let (Ok(ct), true) = (SignCryptCiphertext::<C>::try_from(uh(&t["ct"]).as_slice()), vs.len() == a.items.len()) {
                j.truth_ok(a, ct_some(ct.decrypt_with_shares(&vs[..tt])).as_deref() == Some(&m[..]), "no-longer-decrypts:decrypt_with_shares", json!({}));
                let k = SignCryptDecryptionKey::<C>::from_shares(&vs[vs.len() - tt..]).ok().and_then(|k| ct_some(k.decrypt(&ct)));
                j.truth_ok(a, k.as_deref() == Some(&m[..]), "no-longer-decrypts:decryption-key", json!({}));
                // ground truth: an honest share verifies against its own key share, for every scheme
                let sks = shares_of::<C>(&t["sk_shares"]);
                for (sh, ds) in sks.iter().zip(&vs) {
                    let ok = sh.public_key().map(|p| ds.verify(&p, &ct).is_ok()).unwrap_or(false);
                    j.truth_ok(a, ok, "share-does-not-verify", json!({}));
                }
            } else {
                j.fail(a, "ciphertext-no-longer-decodes", json!({}));
            }
        }
        "timelock_ciphertext" => {
            if let (Some(v), Some((k, sk))) = (j.dec3::<TimeCryptCiphertext<C>>(a, &a.items[0]), sk_of::<C>(&t["sk"])) {
                let m = uh(&t["msg"]);
                let id = uh(&t["id"]);
                let raw = a.flags.iter().any(|f| f == "honest_signature_did_not_open_at_generation");
                let sig = if raw {
                    // sealed against H(id) under this scheme's tag by the producing release
                    wrap_sig::<C>(s, ls::<C>(refimpl::core_sign::<C::R>(&k, &id, <C::R as RC>::dst(s))))
                } else {
                    sk.sign(lscheme(s), &id).expect("sign id")
                };
                j.truth_ok(a, ct_some(v.decrypt(&sig)).as_deref() == Some(&m[..]), "no-longer-opens", json!({"opened_with": t["opens_with"]}));
                let rsig = r_sig::<C>(sig.as_raw_value());
                let ro = match (r_pk::<C>(&v.u), rsig) {
                    (Some(u), Some(sg)) => refimpl::timelock_open::<C::R>(sg, u, &v.v, &v.w),
                    _ => None,
                };
                j.truth_ok(a, ro.as_deref() == Some(&m[..]), "reference-cannot-open", json!({}));
            }
        }
        "elgamal_ciphertext" => {
            if let (Some(v), Some((_, sk))) = (j.dec3::<ElGamalCiphertext<C>>(a, &a.items[0]), sk_of::<C>(&t["sk"])) {
                if let Some(m) = refimpl::rs_from_be(&uh(&t["m"])) {
                    j.truth_ok(a, enc_pt(&v.decrypt(&sk)) == gen_hm(&m), "no-longer-decrypts", json!({}));
                }
            }
        }
        "elgamal_proof" => {
            if let (Some(v), Some((k, sk))) = (j.dec3::<ElGamalProof<C>>(a, &a.items[0]), sk_of::<C>(&t["sk"])) {
                if let Some(m) = refimpl::rs_from_be(&uh(&t["m"])) {
                    j.truth_ok(a, v.verify(sk.public_key()).is_ok(), "no-longer-verifies", json!({}));
                    j.truth_ok(a, v.verify_and_decrypt(&sk).ok().map(|p| enc_pt(&p)) == Some(gen_hm(&m)), "no-longer-decrypts", json!({}));
                    let rp = refimpl::RElGamalProof::<C::R> {
                        c1: r_pk::<C>(&v.ciphertext.c1).unwrap_or(RPk::<C>::id()),
                        c2: r_pk::<C>(&v.ciphertext.c2).unwrap_or(RPk::<C>::id()),
                        message_proof: rs_from_sc::<C>(&v.message_proof),
                        blinder_proof: rs_from_sc::<C>(&v.blinder_proof),
                        challenge: rs_from_sc::<C>(&v.challenge),
                    };
                    j.truth_ok(a, refimpl::elgamal_verify::<C::R>(refimpl::sk_to_pk::<C::R>(&k), &rp).0, "reference-rejects", json!({}));
                }
            }
        }
        "elgamal_proof_custom_generator" => {
            if let (Some(v), Some((k, sk))) = (j.dec3::<ElGamalProof<C>>(a, &a.items[0]), sk_of::<C>(&t["sk"])) {
                if let (Some(m), Some(hr)) = (refimpl::rs_from_be(&uh(&t["m"])), RPk::<C>::dec(&uh(&t["generator"]))) {
                    let lh = lp::<C>(hr);
                    let ok = <C as BlsElGamal>::verify_proof(sk.public_key().0, Some(lh), v.ciphertext.c1, v.ciphertext.c2, v.message_proof, v.blinder_proof, v.challenge).is_ok();
                    j.truth_ok(a, ok, "no-longer-verifies", json!({}));
                    let dec = <C as BlsElGamal>::verify_and_decrypt(sk.0, Some(lh), v.ciphertext.c1, v.ciphertext.c2, v.message_proof, v.blinder_proof, v.challenge).ok().map(|p| enc_pt(&p));
                    j.truth_ok(a, dec == Some(hr.mul(&m).enc()), "no-longer-decrypts", json!({}));
                    let rp = refimpl::RElGamalProof::<C::R> {
                        c1: r_pk::<C>(&v.ciphertext.c1).unwrap_or(RPk::<C>::id()),
                        c2: r_pk::<C>(&v.ciphertext.c2).unwrap_or(RPk::<C>::id()),
                        message_proof: rs_from_sc::<C>(&v.message_proof),
                        blinder_proof: rs_from_sc::<C>(&v.blinder_proof),
                        challenge: rs_from_sc::<C>(&v.challenge),
                    };
                    j.truth_ok(a, refimpl::elgamal_verify_gen::<C::R>(refimpl::sk_to_pk::<C::R>(&k), hr, &rp), "reference-rejects", json!({}));
                }
            }
        }
        "elgamal_decryption_share_set" => {
            let vs: Vec<ElGamalDecryptionShare<C>> = a.items.iter().filter_map(|e| j.dec3::<ElGamalDecryptionShare<C>>(a, e)).collect();
            let tt = t["t"].as_u64().unwrap_or(2) as usize;
            if let (Ok(ct), Some(m), true) = (ElGamalCiphertext::<C>::try_from(uh(&t["ct"]).as_slice()), refimpl::rs_from_be(&uh(&t["m"])), vs.len() == a.items.len()) {
                let first = ElGamalDecryptionKey::<C>::from_shares(&vs[..tt]).ok().map(|k| enc_pt(&k.decrypt(&ct)));
                let last = ElGamalDecryptionKey::<C>::from_shares(&vs[vs.len() - tt..]).ok().map(|k| enc_pt(&k.decrypt(&ct)));
                j.truth_ok(a, first == Some(gen_hm(&m)) && last == Some(gen_hm(&m)), "no-longer-decrypts", json!({}));
            } else {
                j.fail(a, "ciphertext-no-longer-decodes", json!({}));
            }
        }
        "elgamal_decryption_key" => {
            if let Some(v) = j.dec3::<ElGamalDecryptionKey<C>>(a, &a.items[0]) {
                if let (Ok(ct), Some(m)) = (ElGamalCiphertext::<C>::try_from(uh(&t["ct"]).as_slice()), refimpl::rs_from_be(&uh(&t["m"]))) {
                    j.truth_ok(a, enc_pt(&v.decrypt(&ct)) == gen_hm(&m), "no-longer-decrypts", json!({}));
                }
            }
        }
        other => {
            j.ctx.harness_error(format!("golden: unknown artefact kind {other}"));
            return;
        }
    }
    ctx.hit(&cell, &[&fpd]);
    ctx.sample(&cell, || json!({"origin": origin, "kind": a.kind, "scheme": a.scheme, "label": a.label, "first_item_bytes": a.items.first().map(|e| hx(&hex::decode(&e.bytes).unwrap_or_default()))}));
}

/// every (kind, scheme) cell an artefact set must contain - used as required coverage cells
pub fn expected_cells(origin: &str, suite: &str) -> Vec<String> {
    let mut v = Vec::new();
    for k in ["secret_key", "secret_key_enum", "public_key", "proof_of_possession", "secret_key_share_set", "public_key_share_set", "elgamal_ciphertext", "elgamal_proof", "elgamal_decryption_share_set", "elgamal_decryption_key"] {
        v.push(format!("{origin}/{suite}/{k}"));
    }
    for s in SCHEMES {
        for k in ["signature", "aggregate_signature", "proof_commitment", "proof_commitment_secret", "proof_commitment_challenge", "proof_of_knowledge", "proof_of_knowledge_timestamp", "signcrypt_ciphertext", "signcrypt_decryption_key", "sign_decryption_share_set", "timelock_ciphertext"] {
            v.push(format!("{origin}/{suite}/{k}/{}", s.name()));
        }
        if s != Scheme::Aug {
            for k in ["multi_signature", "multi_public_key", "signature_share_set"] {
                v.push(format!("{origin}/{suite}/{k}/{}", s.name()));
            }
        }
    }
    v
}

/// cells of the second artefact set
pub fn expected_cells_extra(origin: &str, suite: &str) -> Vec<String> {
    let mut v = vec![
        format!("{origin}/{suite}/elgamal_proof_custom_generator"),
        format!("{origin}/{suite}/secret_key_share_set"),
        format!("{origin}/{suite}/public_key_share_set"),
    ];
    for s in SCHEMES {
        for k in ["sign_decryption_share_set", "signcrypt_ciphertext", "timelock_ciphertext", "aggregate_signature", "proof_of_knowledge"] {
            v.push(format!("{origin}/{suite}/{k}/{}", s.name()));
        }
        if s != Scheme::Aug {
            v.push(format!("{origin}/{suite}/signature_share_set/{}", s.name()));
        }
    }
    v
}
