//! Runtime-monitoring harness for mikelodder7/blsful (see /verif/DESIGN.md).
//!
//! Every monitor runs the *real* library (path dependency on /repo), records what it did
//! in a `Ctx` (evaluations, distinct non-trivial case fingerprints, coverage cells, samples,
//! violations) and leaves the verdict to the parent process in `bin/monitor.rs`.

pub mod codec;
pub mod gen;
pub mod golden;
pub mod monitors;
pub mod refimpl;
pub mod suite;

use rand_chacha::ChaCha20Rng;
use rand_core::SeedableRng;
use serde::{Deserialize, Serialize};
use serde_json::{json, Value};
use sha2::{Digest, Sha256};
use std::cell::RefCell;
use std::collections::{BTreeMap, BTreeSet, HashSet};
use std::io::Write;
use std::panic::{catch_unwind, AssertUnwindSafe};

#[derive(Copy, Clone, Debug, PartialEq, Eq, Serialize, Deserialize)]
pub enum Tier {
    Quick,
    Thorough,
}

impl Tier {
    pub fn name(self) -> &'static str {
        match self {
            Tier::Quick => "quick",
            Tier::Thorough => "thorough",
        }
    }
    pub fn pick<T>(self, q: T, t: T) -> T {
        match self {
            Tier::Quick => q,
            Tier::Thorough => t,
        }
    }
}

/// One refutation of a property, as observed.
#[derive(Clone, Debug, Serialize, Deserialize)]
pub struct Violation {
    /// stable identity of *what* fails (cell / call site) - used for de-duplication and for
    /// matching /verif/known_findings.json
    pub signature: String,
    /// the case group (shard unit) that produced it, for replay
    pub group: u64,
    /// everything needed to understand and re-run the failing case
    pub detail: Value,
}

/// What a worker hands back to the parent.
#[derive(Clone, Debug, Default, Serialize, Deserialize)]
pub struct Report {
    pub evaluations: u64,
    pub trivial: u64,
    pub fingerprints: Vec<u64>,
    pub cells: BTreeMap<String, u64>,
    pub required: BTreeSet<String>,
    pub violations: Vec<Violation>,
    pub samples: Vec<Value>,
    pub notes: BTreeMap<String, Value>,
    pub counters: BTreeMap<String, u64>,
    pub harness_errors: Vec<String>,
    pub exhaustive: Vec<String>,
}

pub struct Ctx {
    pub prop: String,
    pub tier: Tier,
    pub seed: u64,
    pub worker: usize,
    pub workers: usize,
    pub build: String,
    /// when set, only this case group is executed (replay)
    pub only_group: Option<u64>,
    pub cur_group: u64,
    pub evaluations: u64,
    pub trivial: u64,
    pub fingerprints: HashSet<u64>,
    pub cells: BTreeMap<String, u64>,
    pub required: BTreeSet<String>,
    pub violations: Vec<Violation>,
    pub samples: Vec<Value>,
    sample_cells: BTreeMap<String, u32>,
    pub notes: BTreeMap<String, Value>,
    pub counters: BTreeMap<String, u64>,
    pub harness_errors: Vec<String>,
    pub exhaustive: Vec<String>,
    /// optional call log (C17: call record is flushed *before* the library is invoked)
    pub call_log: Option<std::fs::File>,
    /// C17: one defect = one signature, keyed on the panic location only
    pub panic_sig_by_location: bool,
    /// two-phase monitors (C19, C20): "emit" writes logs, "check" reads all of them
    pub phase: String,
    pub verif_dir: std::path::PathBuf,
}

thread_local! {
    static LAST_PANIC: RefCell<Option<(String, String)>> = RefCell::new(None);
}

/// Install a panic hook that remembers message + location (and stays quiet).
pub fn install_panic_hook() {
    std::panic::set_hook(Box::new(|info| {
        let loc = info
            .location()
            .map(|l| format!("{}:{}", l.file(), l.line()))
            .unwrap_or_else(|| "<unknown>".into());
        let msg = if let Some(s) = info.payload().downcast_ref::<&str>() {
            s.to_string()
        } else if let Some(s) = info.payload().downcast_ref::<String>() {
            s.clone()
        } else {
            "<non-string panic payload>".into()
        };
        LAST_PANIC.with(|p| *p.borrow_mut() = Some((loc, msg)));
    }));
}

/// Normalise a panic location so that the same defect has the same signature on every
/// machine: strip the cargo registry prefix and the /repo prefix.
pub fn norm_loc(loc: &str) -> String {
    if let Some(i) = loc.find("/registry/src/") {
        let rest = &loc[i + "/registry/src/".len()..];
        if let Some(j) = rest.find('/') {
            return rest[j + 1..].to_string();
        }
    }
    if let Some(i) = loc.find("/repo/src/") {
        return loc[i + "/repo/".len()..].to_string();
    }
    if let Some(i) = loc.find("/rustc/") {
        let rest = &loc[i + "/rustc/".len()..];
        if let Some(j) = rest.find('/') {
            return format!("rust:{}", &rest[j + 1..]);
        }
    }
    loc.to_string()
}

pub fn hx(b: &[u8]) -> String {
    if b.len() <= 96 {
        hex::encode(b)
    } else {
        format!(
            "{}..({} bytes, sha256={})",
            hex::encode(&b[..32]),
            b.len(),
            hex::encode(&Sha256::digest(b)[..8])
        )
    }
}

pub fn fp(parts: &[&[u8]]) -> u64 {
    let mut h = Sha256::new();
    for p in parts {
        h.update((p.len() as u64).to_le_bytes());
        h.update(p);
    }
    let d = h.finalize();
    u64::from_le_bytes(d[..8].try_into().unwrap())
}

impl Ctx {
    pub fn new(prop: &str, tier: Tier, seed: u64, worker: usize, workers: usize) -> Self {
        Ctx {
            prop: prop.to_string(),
            tier,
            seed,
            worker,
            workers: workers.max(1),
            build: build_name(),
            only_group: None,
            cur_group: 0,
            evaluations: 0,
            trivial: 0,
            fingerprints: HashSet::new(),
            cells: BTreeMap::new(),
            required: BTreeSet::new(),
            violations: Vec::new(),
            samples: Vec::new(),
            sample_cells: BTreeMap::new(),
            notes: BTreeMap::new(),
            counters: BTreeMap::new(),
            harness_errors: Vec::new(),
            exhaustive: Vec::new(),
            call_log: None,
            panic_sig_by_location: false,
            phase: String::new(),
            verif_dir: std::path::PathBuf::from(std::env::var("VERIF_DIR").unwrap_or_else(|_| "/verif".to_string())),
        }
    }

    /// Shard unit. Monitors number their case groups 0,1,2,... in a deterministic order and
    /// skip those that are not theirs; every random choice inside a group comes from
    /// `self.rng(group)`, so the outcome is independent of how groups are sharded.
    pub fn mine(&mut self, group: u64) -> bool {
        let ok = match self.only_group {
            Some(g) => g == group,
            None => (group as usize) % self.workers == self.worker,
        };
        if ok {
            self.cur_group = group;
        }
        ok
    }

    pub fn rng(&self, group: u64) -> ChaCha20Rng {
        self.rng_l(group, "")
    }

    pub fn rng_l(&self, group: u64, label: &str) -> ChaCha20Rng {
        let mut h = Sha256::new();
        h.update(b"blsful-verif");
        h.update(self.prop.as_bytes());
        h.update(self.seed.to_le_bytes());
        h.update(group.to_le_bytes());
        h.update(label.as_bytes());
        ChaCha20Rng::from_seed(h.finalize().into())
    }

    pub fn require(&mut self, cell: &str) {
        self.required.insert(cell.to_string());
    }

    /// A case that reached the deciding oracle.
    pub fn hit(&mut self, cell: &str, parts: &[&[u8]]) {
        self.evaluations += 1;
        *self.cells.entry(cell.to_string()).or_insert(0) += 1;
        let mut v: Vec<&[u8]> = vec![cell.as_bytes()];
        v.extend_from_slice(parts);
        self.fingerprints.insert(fp(&v));
    }

    /// A case that was decided for a trivial reason (e.g. undecodable after a bit flip).
    pub fn hit_trivial(&mut self, cell: &str) {
        self.evaluations += 1;
        self.trivial += 1;
        *self.cells.entry(format!("{cell}#trivial")).or_insert(0) += 1;
    }

    pub fn count(&mut self, name: &str, n: u64) {
        *self.counters.entry(name.to_string()).or_insert(0) += n;
    }

    pub fn note(&mut self, key: &str, v: Value) {
        self.notes.insert(key.to_string(), v);
    }

    /// Keep at most 2 samples per cell and 24 overall.
    pub fn sample(&mut self, cell: &str, v: impl FnOnce() -> Value) {
        if self.samples.len() >= 24 {
            return;
        }
        let n = self.sample_cells.entry(cell.to_string()).or_insert(0);
        if *n >= 1 {
            return;
        }
        *n += 1;
        let mut val = v();
        if let Value::Object(m) = &mut val {
            m.insert("cell".into(), json!(cell));
        }
        self.samples.push(val);
    }

    pub fn violation(&mut self, signature: &str, detail: Value) {
        // keep one witness per signature and worker (others only counted)
        self.count(&format!("violations/{signature}"), 1);
        if self.violations.iter().any(|v| v.signature == signature) {
            return;
        }
        self.violations.push(Violation {
            signature: signature.to_string(),
            group: self.cur_group,
            detail,
        });
    }

    /// `cond` must hold; otherwise record a violation.
    pub fn expect(&mut self, cond: bool, signature: &str, detail: impl FnOnce() -> Value) -> bool {
        if !cond {
            let d = detail();
            self.violation(signature, d);
        }
        cond
    }

    pub fn harness_error(&mut self, msg: String) {
        if self.harness_errors.len() < 20 {
            self.harness_errors.push(msg);
        }
    }

    /// Run a library call under the abort monitor. A panic is itself a violation
    /// (signature `panic/<entry>@<location>`), reported by whichever monitor observes it.
    pub fn guard<T>(
        &mut self,
        entry: &str,
        input: impl FnOnce() -> Value,
        f: impl FnOnce() -> T,
    ) -> Option<T> {
        if let Some(log) = self.call_log.as_mut() {
            // call record first, flushed, so that an abort which escapes catch_unwind
            // still leaves the offending input on disk
            let inp = input();
            let t_ms = std::time::SystemTime::now().duration_since(std::time::UNIX_EPOCH).map(|d| d.as_millis() as u64).unwrap_or(0);
            let rec = json!({"ev":"call","t_ms":t_ms,"entry":entry,"group":self.cur_group,"input":inp});
            let _ = writeln!(log, "{rec}");
            let _ = log.flush();
            let r = catch_unwind(AssertUnwindSafe(f));
            return match r {
                Ok(v) => {
                    let _ = writeln!(log, "{{\"ev\":\"ret\"}}");
                    Some(v)
                }
                Err(_) => {
                    let (loc, msg) = LAST_PANIC
                        .with(|p| p.borrow_mut().take())
                        .unwrap_or_default();
                    let _ = writeln!(log, "{{\"ev\":\"panic\"}}");
                    let sig = self.panic_sig(entry, &loc);
                    self.violation(
                        &sig,
                        json!({"entry":entry,"input":inp,"panic_location":loc,"panic_message":msg,"build":self.build}),
                    );
                    None
                }
            };
        }
        let r = catch_unwind(AssertUnwindSafe(f));
        match r {
            Ok(v) => Some(v),
            Err(_) => {
                let (loc, msg) = LAST_PANIC
                    .with(|p| p.borrow_mut().take())
                    .unwrap_or_default();
                let sig = self.panic_sig(entry, &loc);
                let inp = input();
                self.violation(
                    &sig,
                    json!({"entry":entry,"input":inp,"panic_location":loc,"panic_message":msg,"build":self.build}),
                );
                None
            }
        }
    }

    fn panic_sig(&self, entry: &str, loc: &str) -> String {
        if self.panic_sig_by_location {
            format!("panic@{}", norm_loc(loc))
        } else {
            format!("panic/{}@{}", entry, norm_loc(loc))
        }
    }

    /// scratch directory shared by the phases of a two-phase monitor
    pub fn work_dir(&self, sub: &str) -> std::path::PathBuf {
        let d = self.verif_dir.join("replay").join(".work").join(&self.prop).join(sub);
        let _ = std::fs::create_dir_all(&d);
        d
    }

    pub fn backend(&self) -> &'static str {
        if cfg!(feature = "rust") {
            "rust"
        } else {
            "blst"
        }
    }

    pub fn into_report(self) -> Report {
        Report {
            evaluations: self.evaluations,
            trivial: self.trivial,
            fingerprints: self.fingerprints.into_iter().collect(),
            cells: self.cells,
            required: self.required,
            violations: self.violations,
            samples: self.samples,
            notes: self.notes,
            counters: self.counters,
            harness_errors: self.harness_errors,
            exhaustive: self.exhaustive,
        }
    }
}

pub fn build_name() -> String {
    let backend = if cfg!(feature = "rust") { "rust" } else { "blst" };
    let prof = if cfg!(debug_assertions) {
        "checked"
    } else {
        "release"
    };
    format!("{backend}/{prof}")
}

impl Report {
    pub fn merge(&mut self, o: Report) {
        self.evaluations += o.evaluations;
        self.trivial += o.trivial;
        self.fingerprints.extend(o.fingerprints);
        for (k, v) in o.cells {
            *self.cells.entry(k).or_insert(0) += v;
        }
        self.required.extend(o.required);
        for v in o.violations {
            self.violations.push(v);
        }
        for s in o.samples {
            if self.samples.len() < 32 {
                self.samples.push(s);
            }
        }
        for (k, v) in o.notes {
            self.notes.entry(k).or_insert(v);
        }
        for (k, v) in o.counters {
            *self.counters.entry(k).or_insert(0) += v;
        }
        self.harness_errors.extend(o.harness_errors);
        for e in o.exhaustive {
            if !self.exhaustive.contains(&e) {
                self.exhaustive.push(e);
            }
        }
    }
}
