//! C01 - every honestly produced signature verifies (all schemes, both groups), is
//! deterministic, and survives every encoding of key, public key and signature.

use crate::gen::{self, Content, CONTENTS};
use crate::refimpl::{self, Scheme, RG, RS, SCHEMES};
use crate::suite::*;
use crate::{for_both, hx, Ctx, Tier};
use blsful::*;
use serde_json::json;

pub const RULE: &str = "grid: edge scalars E (1,2,3,r-1,r-2,2^254,2^255-19 mod r,(r-1)/2,hash-derived,random, plus keys at magnitude boundaries (2^32, 2^64-1, 2^64, 2^128-1, 2^248, 3*2^248, 0x73*2^248 in the quick tier; 2^k-1, 2^k, 2^k+1 for 17 values of k in the thorough tier), plus 9 keys whose compressed public key ends with NUL/LF/CR/space/quote/backslash/DEL/0x80/0xff) x message length classes (+ 160 / 208 where pk||msg is 256 bytes; thorough 159..161, 207..209) x contents (random; all-zero, all-0xff, counter at lengths 1,32,33,128,257 in the quick tier, everywhere in the thorough tier) x 3 schemes x 2 group assignments, plus seeded random (key,len<=1024) cases in the thorough tier. Per case: sign twice (determinism), sign with the same scalar under the OTHER group assignment in between and sign again (history independence), verify, reference CoreVerify on the same bytes, then sk through {be,le,Vec,serde_bare,serde_json} and through the curve-tagged SecretKeyEnum's {be,le,Vec,serde_bare,serde_json} must re-sign to the same bytes and sig' x pk' through {bytes,serde_bare,serde_json}^2 must verify. History clusters (4 quick / 24 thorough per group assignment): the 18 questions {sign, verify} x 3 schemes x 2 group assignments + proof of possession {prove, verify with own key, verify with another key} x 2 over one (key, message) are asked in every ordered pair (a,b) as the sequence a,b,b,a and every answer must equal the reference's (answers may depend on the arguments only, not on what was asked before). A case is distinct by (suite,scheme,sk,msg); non-trivial = signing succeeded and the pairing check was evaluated by both library and reference.";

pub fn run(ctx: &mut Ctx) {
    for_both!(run_suite, ctx);
}

fn lengths(t: Tier) -> Vec<usize> {
    // + the lengths at which pk || msg (augmentation) is 255 / 256 / 257 bytes
    let mut v: Vec<usize> = t.pick(gen::LENGTHS_QUICK, gen::LENGTHS_FULL).to_vec();
    v.extend_from_slice(t.pick(&[160usize, 208][..], gen::LENGTHS_PK_BOUNDARY));
    v.sort_unstable();
    v
}

fn run_suite<C: Suite>(ctx: &mut Ctx) {
    let base: u64 = if C::NAME == "G1Impl" { 0 } else { 1 << 32 };
    let mut g = base;
    let mut erng = ctx.rng_l(base, "edges");
    let mut edges = gen::edge_scalars(&mut erng);
    // keys whose compressed public key ends with a byte that text-oriented handling treats
    // specially (NUL, LF, CR, space, quote, backslash, DEL, 0x80, 0xff)
    for (_b, k) in crate::codec::keys_with_special_pk_tail::<C>() {
        edges.push(("pk-ends-with-special-byte", k));
    }
    // keys at word / limb / byte-pattern boundaries (2^k-1, 2^k, 2^k+1; only the top byte set)
    {
        let mags = gen::magnitude_scalars();
        let quick = ["2^32", "u64::MAX", "2^64", "2^128-1", "2^248", "3*2^248", "0x73*2^248"];
        for (name, k) in mags {
            if ctx.tier == Tier::Thorough || quick.contains(&name.as_str()) {
                edges.push(("magnitude-boundary", k));
            }
        }
    }
    let contents: &[Content] = &CONTENTS[..];
    // quick: structured contents (all-zero, all-0xff, counter) only at a few lengths
    let quick_structured = [1usize, 32, 33, 128, 257];
    for scheme in SCHEMES {
        for len in lengths(ctx.tier) {
            ctx.require(&format!("{}/{}/len={}", C::NAME, scheme.name(), len));
        }
        for (ename, sk) in &edges {
            for &len in lengths(ctx.tier).iter() {
                for &content in contents {
                    if !matches!(content, Content::Random) && (len == 0 || (ctx.tier == Tier::Quick && !quick_structured.contains(&len))) {
                        continue;
                    }
                    g += 1;
                    if !ctx.mine(g) {
                        continue;
                    }
                    let mut rng = ctx.rng(g);
                    let msg = gen::message(len, content, &mut rng);
                    let cell = format!("{}/{}/len={}", C::NAME, scheme.name(), len);
                    one_case::<C>(ctx, &cell, ename, scheme, sk, &msg);
                }
            }
        }
        // one 64 KiB case per scheme x group also in the quick tier
        if ctx.tier == Tier::Quick {
            g += 1;
            if ctx.mine(g) {
                let mut rng = ctx.rng(g);
                let msg = gen::message(65536, Content::Random, &mut rng);
                let sk = gen::random_scalar(&mut rng);
                let cell = format!("{}/{}/len=65536", C::NAME, scheme.name());
                one_case::<C>(ctx, &cell, "random", scheme, &sk, &msg);
            }
            ctx.require(&format!("{}/{}/len=65536", C::NAME, scheme.name()));
        }
        // random (key, length) cases
        let n_rand = ctx.tier.pick(24, 340);
        for _ in 0..n_rand {
            g += 1;
            if !ctx.mine(g) {
                continue;
            }
            let mut rng = ctx.rng(g);
            let len = gen::below(&mut rng, 1025);
            let msg = gen::message(len, Content::Random, &mut rng);
            let sk = gen::random_scalar(&mut rng);
            let cell = format!("{}/{}/random", C::NAME, scheme.name());
            one_case::<C>(ctx, &cell, "random", scheme, &sk, &msg);
        }
        ctx.require(&format!("{}/{}/random", C::NAME, scheme.name()));
    }
    // history clusters: all signers and verifiers of one (key, message) under every scheme and
    // under both group assignments, asked in every ordered pair
    ctx.require(&format!("{}/history", C::NAME));
    let n_hist = ctx.tier.pick(4, 24);
    for i in 0..n_hist {
        g += 1;
        if !ctx.mine(g) {
            continue;
        }
        let mut rng = ctx.rng(g);
        let sk = if i % 2 == 0 { edges[i / 2 % edges.len()].1 } else { gen::random_scalar(&mut rng) };
        let len = [32usize, 0, 1, 129, 48, 96, 257, 33][i % 8];
        let mut msg = gen::message(len, Content::Random, &mut rng);
        if i % 4 == 2 {
            // the message IS the key's public-key encoding: the proof of possession and the
            // signatures then hash the same bytes under different tags
            msg = pk_bytes(&sk_from_rs::<C>(&sk).public_key());
        }
        history_cluster::<C>(ctx, "C01", &sk, &msg);
    }
}

/// Also used by C03 (the answers are the reference's bytes) under its own property id.
pub fn history_cluster<C: Suite>(ctx: &mut Ctx, prop: &str, sk_rs: &RS, msg: &[u8]) {
    use super::history::{q, sandwiches, Q};
    let sk = sk_from_rs::<C>(sk_rs);
    let osk = sk_from_rs::<C::Other>(sk_rs);
    let pk = sk.public_key();
    let opk = osk.public_key();
    let mut qs: Vec<Q<Option<Vec<u8>>>> = Vec::new();
    for scheme in SCHEMES {
        let ls = lscheme(scheme);
        let want = refimpl::sign::<C::R>(scheme, sk_rs, msg).enc();
        let owant = refimpl::sign::<<C::Other as Suite>::R>(scheme, sk_rs, msg).enc();
        let (skr, oskr) = (&sk, &osk);
        qs.push(q(format!("sign/{}/{}", C::NAME, scheme.name()), Some(want.clone()), move || skr.sign(ls, msg).ok().map(|s| sig_pt_bytes(&s))));
        qs.push(q(format!("sign/{}/{}", <C::Other as Suite>::NAME, scheme.name()), Some(owant.clone()), move || oskr.sign(ls, msg).ok().map(|s| sig_pt_bytes(&s))));
        // the verifier on the signature the reference prescribes
        let lsig = wrap_sig::<C>(scheme, super::util::ls::<C>(refimpl::sign::<C::R>(scheme, sk_rs, msg)));
        let olsig = wrap_sig::<C::Other>(scheme, super::util::ls::<C::Other>(refimpl::sign::<<C::Other as Suite>::R>(scheme, sk_rs, msg)));
        qs.push(q(format!("verify/{}/{}", C::NAME, scheme.name()), Some(vec![1]), move || Some(vec![lsig.verify(&pk, msg).is_ok() as u8])));
        qs.push(q(format!("verify/{}/{}", <C::Other as Suite>::NAME, scheme.name()), Some(vec![1]), move || Some(vec![olsig.verify(&opk, msg).is_ok() as u8])));
    }
    {
        let (skr, oskr) = (&sk, &osk);
        qs.push(q(format!("pop/{}", C::NAME), Some(refimpl::pop_prove::<C::R>(sk_rs).enc()), move || skr.proof_of_possession().ok().map(|p| Vec::from(&p))));
        qs.push(q(format!("pop/{}", <C::Other as Suite>::NAME), Some(refimpl::pop_prove::<<C::Other as Suite>::R>(sk_rs).enc()), move || oskr.proof_of_possession().ok().map(|p| Vec::from(&p))));
    }
    {
        // the proof of possession against its own key (accepted) and against another key (rejected)
        let ok_rs = if *sk_rs == -RS::ONE { RS::ONE } else { *sk_rs + RS::ONE };
        let other = sk_from_rs::<C>(&ok_rs).public_key();
        let oother = sk_from_rs::<C::Other>(&ok_rs).public_key();
        let pop = ProofOfPossession::<C>(super::util::ls::<C>(refimpl::pop_prove::<C::R>(sk_rs)));
        let opop = ProofOfPossession::<C::Other>(super::util::ls::<C::Other>(refimpl::pop_prove::<<C::Other as Suite>::R>(sk_rs)));
        qs.push(q(format!("pop-verify/{}/own-key", C::NAME), Some(vec![1]), move || Some(vec![pop.verify(pk).is_ok() as u8])));
        qs.push(q(format!("pop-verify/{}/other-key", C::NAME), Some(vec![0]), move || Some(vec![pop.verify(other).is_ok() as u8])));
        qs.push(q(format!("pop-verify/{}/own-key", <C::Other as Suite>::NAME), Some(vec![1]), move || Some(vec![opop.verify(opk).is_ok() as u8])));
        qs.push(q(format!("pop-verify/{}/other-key", <C::Other as Suite>::NAME), Some(vec![0]), move || Some(vec![opop.verify(oother).is_ok() as u8])));
    }
    let skb = sk_rs.to_be_bytes();
    let d = || json!({"sk_be":hex::encode(skb),"msg":hx(msg),"note":"sign/<suite>/<scheme> answers the signature bytes, verify/.. and pop-verify/.. answer [1] for accepted, pop/<suite> the proof of possession"});
    let mut id = skb.to_vec();
    id.extend_from_slice(msg);
    sandwiches(ctx, prop, &format!("{}/history", C::NAME), "sign-verify-pop", &id, &d, &qs);
}

fn one_case<C: Suite>(ctx: &mut Ctx, cell: &str, ename: &str, scheme: Scheme, sk_rs: &RS, msg: &[u8]) {
    let sk = sk_from_rs::<C>(sk_rs);
    let skb = sk_rs.to_be_bytes();
    let ls = lscheme(scheme);
    let detail = |what: &str| {
        json!({"what":what,"suite":C::NAME,"scheme":scheme.name(),"sk_be":hex::encode(skb),
               "sk_class":ename,"msg":hx(msg),"msg_len":msg.len()})
    };
    let sigp = format!("{}/{}", C::NAME, scheme.name());

    let Some(r1) = ctx.guard("SecretKey::sign", || detail("sign"), || sk.sign(ls, msg)) else {
        return;
    };
    let Ok(sig1) = r1 else {
        ctx.violation(&format!("C01/sign-failed/{sigp}"), detail("sign returned Err for a non-zero key"));
        return;
    };
    let sig1b = Vec::from(&sig1);
    let sig2 = sk.sign(ls, msg).ok().map(|s| Vec::from(&s));
    ctx.expect(sig2.as_deref() == Some(&sig1b[..]), &format!("C01/nondeterministic/{sigp}"), || {
        detail("two sign calls with equal inputs differ")
    });
    // history independence: the same scalar used under the OTHER group assignment in between
    // must neither disturb that signature nor change what this key signs afterwards
    {
        let osk = sk_from_rs::<C::Other>(sk_rs);
        let o = osk.sign(ls, msg).ok();
        let o_ok = matches!(&o, Some(s) if s.verify(&osk.public_key(), msg).is_ok());
        ctx.expect(o_ok, &format!("C01/cross-group-history/other-group-signature-rejected/{sigp}"), || {
            detail("after signing under one group assignment, the same scalar's signature under the other group assignment does not verify")
        });
        let sig3 = sk.sign(ls, msg).ok().map(|s| Vec::from(&s));
        ctx.expect(sig3.as_deref() == Some(&sig1b[..]), &format!("C01/cross-group-history/nondeterministic/{sigp}"), || {
            detail("signing again after the other group assignment was used gives different bytes")
        });
        ctx.count("cross_group_history_checks", 1);
    }
    let pk = sk.public_key();
    let pkb = pk_bytes(&pk);
    let v = ctx.guard("Signature::verify", || detail("verify"), || sig1.verify(&pk, msg));
    ctx.expect(matches!(v, Some(Ok(()))), &format!("C01/honest-rejected/{sigp}"), || {
        detail("honest signature rejected by Signature::verify")
    });
    // reference CoreVerify on the same bytes
    let rv = refimpl::verify::<C::R>(scheme, &pkb, &sig_pt_bytes(&sig1), msg);
    ctx.expect(rv, &format!("C01/reference-rejects/{sigp}"), || {
        let mut d = detail("reference verifier rejects the library's signature");
        d["sig"] = json!(hex::encode(&sig1b));
        d["pk"] = json!(hex::encode(&pkb));
        d
    });

    // ---- the key through every encoding must sign the same bytes
    let mut sks: Vec<(&str, Option<SecretKey<C>>)> = Vec::new();
    sks.push(("be", ct_some(SecretKey::<C>::from_be_bytes(&sk.to_be_bytes()))));
    sks.push(("le", ct_some(SecretKey::<C>::from_le_bytes(&sk.to_le_bytes()))));
    sks.push(("vec", SecretKey::<C>::try_from(Vec::from(&sk)).ok()));
    sks.push((
        "bare",
        serde_bare::to_vec(&sk).ok().and_then(|b| serde_bare::from_slice(&b).ok()),
    ));
    sks.push((
        "json",
        serde_json::to_vec(&sk).ok().and_then(|b| serde_json::from_slice(&b).ok()),
    ));
    // ... and through the curve-tagged wrapper's own encodings (same variant, same key)
    {
        let e = match C::CURVE {
            Bls12381::G1 => SecretKeyEnum::G1(SecretKey(sc_from_rs::<Bls12381G1Impl>(sk_rs))),
            Bls12381::G2 => SecretKeyEnum::G2(SecretKey(sc_from_rs::<Bls12381G2Impl>(sk_rs))),
        };
        let back = |e2: Option<SecretKeyEnum>| -> Option<SecretKey<C>> {
            let be = match (e2?, C::CURVE) {
                (SecretKeyEnum::G1(k), Bls12381::G1) => k.to_be_bytes(),
                (SecretKeyEnum::G2(k), Bls12381::G2) => k.to_be_bytes(),
                _ => return None,
            };
            ct_some(SecretKey::<C>::from_be_bytes(&be))
        };
        sks.push(("enum-be", back(ct_some(SecretKeyEnum::from_be_bytes(&e.to_be_bytes())))));
        sks.push(("enum-le", back(ct_some(SecretKeyEnum::from_le_bytes(&e.to_le_bytes())))));
        sks.push(("enum-vec", back(SecretKeyEnum::try_from(Vec::from(&e).as_slice()).ok())));
        sks.push(("enum-bare", back(serde_bare::to_vec(&e).ok().and_then(|b| serde_bare::from_slice(&b).ok()))));
        sks.push(("enum-json", back(serde_json::to_vec(&e).ok().and_then(|b| serde_json::from_slice(&b).ok()))));
    }
    for (cn, s) in sks {
        let ok = match s {
            Some(s2) => s2.sign(ls, msg).ok().map(|x| Vec::from(&x)) == Some(sig1b.clone()),
            None => false,
        };
        ctx.count("codec_sign_checks", 1);
        ctx.expect(ok, &format!("C01/sk-codec/{cn}/{sigp}"), || {
            detail("secret key carried through an encoding does not reproduce the signature")
        });
    }
    // ---- pk' x sig' through every encoding must still verify
    let pks: Vec<(&str, Option<PublicKey<C>>)> = vec![
        ("bytes", PublicKey::<C>::try_from(pkb.as_slice()).ok()),
        (
            "bare",
            serde_bare::to_vec(&pk).ok().and_then(|b| serde_bare::from_slice(&b).ok()),
        ),
        (
            "json",
            serde_json::to_vec(&pk).ok().and_then(|b| serde_json::from_slice(&b).ok()),
        ),
    ];
    let sigs: Vec<(&str, Option<Signature<C>>)> = vec![
        ("bytes", Signature::<C>::try_from(sig1b.as_slice()).ok()),
        (
            "bare",
            serde_bare::to_vec(&sig1).ok().and_then(|b| serde_bare::from_slice(&b).ok()),
        ),
        (
            "json",
            serde_json::to_vec(&sig1).ok().and_then(|b| serde_json::from_slice(&b).ok()),
        ),
    ];
    for (pn, p) in &pks {
        for (sn, s) in &sigs {
            let ok = match (p, s) {
                (Some(p), Some(s)) => s.verify(p, msg).is_ok(),
                _ => false,
            };
            ctx.count("codec_verify_checks", 1);
            ctx.expect(ok, &format!("C01/codec-verify/pk={pn}/sig={sn}/{sigp}"), || {
                detail("signature no longer verifies after key/signature were re-encoded")
            });
        }
    }
    ctx.hit(cell, &[C::NAME.as_bytes(), scheme.name().as_bytes(), &skb, msg]);
    ctx.sample(cell, || {
        json!({"suite":C::NAME,"scheme":scheme.name(),"sk_class":ename,"msg_len":msg.len(),
               "sig":hex::encode(&sig1b),"lib_verify":"ok","ref_verify":rv})
    });
}
