//! C02 - verification accepts exactly the one valid signature and nothing else; every
//! decision equals that of the independent CoreVerify.

use super::util::*;
use crate::gen;
use crate::refimpl::{self, Scheme, RG, RS, SCHEMES};
use crate::suite::*;
use crate::{for_both, hx, Ctx, Tier};
use blsful::*;
use serde_json::json;

pub const RULE: &str = "per honest tuple (key from E or random, message from the length classes incl. 160 / 208 where pk||msg is 256 bytes, contents rotating random / all-zero / all-0xff / counter, scheme, group; signed by the reference) the whole perturbation catalogue of the quantifier is applied: sig+kG (k=1,2,r-1), -sig, 2*sig, 3*sig, signature of another message, signature by another key; every single-bit flip of the message (exhaustive for the designated short-message tuple of each cell, 16 sampled flips otherwise), truncate by 1, extend by 0x00, replace by empty; pk of another key, pk+G, -pk; each other scheme label on the same point; the identity as key, as signature and as both (the pairing equation holds trivially for the last; cell 'identity'); VALID variants: (sig+Q)-Q, 2*(sig/2), decode(encode(sig)), key-sum with signature-sum over one message (valid in Basic/PoP, invalid in Aug). Each tuple is decided by Signature::verify (also with key / signature held in other internal representations of the same points: Jacobian coordinates rescaled with -1, (P+G)-G), MultiSignature::verify and PublicKeyShare::verify and by the reference CoreVerify; library decision must equal the constructed expectation and the reference (expectation != reference is a harness error). History pass: around every invalid tuple the sequence honest, invalid, invalid, honest is asked through Signature::verify and must answer accept, reject, reject, accept (a decision may depend on the tuple only, not on what was asked before). Distinct by (suite,scheme,entry,pk,sig,msg); all tuples outside the 'identity' cell are non-trivial (both points decode, neither is the identity, the pairing equation decides).";

pub fn run(ctx: &mut Ctx) {
    for_both!(run_suite, ctx);
}

struct Tuple<C: Suite> {
    scheme: Scheme,
    pk: RPk<C>,
    sig: RSig<C>,
    msg: Vec<u8>,
}

fn run_suite<C: Suite>(ctx: &mut Ctx) {
    let base: u64 = if C::NAME == "G1Impl" { 0 } else { 1 << 32 };
    let mut g = base;
    let mut erng = ctx.rng_l(base, "edges");
    let edges = gen::edge_scalars(&mut erng);
    // 4097 / 5000 / 70000: a verifier that hashes only a prefix of long messages is visible through
    // the last-bit flip and the truncate / extend variants, which every tuple carries
    // 160 / 208: pk || msg is exactly 256 bytes for the 96- / 48-byte public key (augmentation)
    let lens: &[usize] = ctx.tier.pick(&[0usize, 1, 8, 33, 160, 208, 257, 5000][..], &[0usize, 1, 8, 31, 32, 33, 128, 159, 160, 161, 207, 208, 209, 257, 4096, 4097, 16385, 70000][..]);
    let exhaustive_len: usize = ctx.tier.pick(8, 32);
    for scheme in SCHEMES {
        for kind in ["bitflip", "sig", "pk", "msglen", "relabel", "valid", "identity"] {
            ctx.require(&format!("{}/{}/{}", C::NAME, scheme.name(), kind));
        }
        let n_keys = ctx.tier.pick(3, edges.len());
        for ki in 0..n_keys {
            // quick: pick edge keys 1, r-1 and random; thorough: all of E
            let (kname, sk) = if ctx.tier == Tier::Quick {
                edges[[0usize, 3, 9][ki]]
            } else {
                edges[ki]
            };
            for &len in lens {
                g += 1;
                if !ctx.mine(g) {
                    continue;
                }
                let exhaustive = len == exhaustive_len && ki == 0;
                one_tuple::<C>(ctx, g, scheme, kname, &sk, len, exhaustive);
            }
        }
    }
    let s = format!(
        "message single-bit flips of the designated {}-byte tuple per (suite, scheme)",
        exhaustive_len
    );
    if !ctx.exhaustive.contains(&s) {
        ctx.exhaustive.push(s);
    }
}

fn one_tuple<C: Suite>(ctx: &mut Ctx, g: u64, scheme: Scheme, kname: &str, sk: &RS, len: usize, exhaustive: bool) {
    let mut rng = ctx.rng(g);
    // contents rotate with the case: random, all-zero, all-0xff, counter (a verifier that looks
    // at the message's bytes instead of its length shows on the structured ones)
    let content = gen::CONTENTS[((g % 4) as usize + 3) % 4];
    let msg = gen::message(len, content, &mut rng);
    // the honest tuple is produced by the REFERENCE (whether the library's own signer conforms
    // is C01/C03's question; here the verifier is under test)
    let pk = refimpl::sk_to_pk::<C::R>(sk);
    let sig = refimpl::sign::<C::R>(scheme, sk, &msg);
    let g_sig = RSig::<C>::gen();
    let g_pk = RPk::<C>::gen();
    let other_sk = gen::random_scalar(&mut rng);
    let other_pk = refimpl::sk_to_pk::<C::R>(&other_sk);
    let other_msg = {
        let mut m = msg.clone();
        m.extend_from_slice(b"-other");
        m
    };
    let mut cases: Vec<(&str, String, bool, Tuple<C>)> = Vec::new();
    let mut push = |kind: &'static str, name: String, valid: bool, scheme: Scheme, pk: RPk<C>, sig: RSig<C>, msg: Vec<u8>| {
        cases.push((kind, name, valid, Tuple { scheme, pk, sig, msg }));
    };
    // honest
    push("valid", "honest".into(), true, scheme, pk, sig, msg.clone());
    // signature perturbations
    let two = RS::ONE + RS::ONE;
    push("sig", "sig+G".into(), false, scheme, pk, sig.add(g_sig), msg.clone());
    push("sig", "sig+2G".into(), false, scheme, pk, sig.add(g_sig.mul(&two)), msg.clone());
    push("sig", "sig+(r-1)G".into(), false, scheme, pk, sig.add(g_sig.mul(&-RS::ONE)), msg.clone());
    push("sig", "-sig".into(), false, scheme, pk, sig.neg(), msg.clone());
    push("sig", "2*sig".into(), false, scheme, pk, sig.mul(&two), msg.clone());
    push("sig", "3*sig".into(), false, scheme, pk, sig.mul(&(two + RS::ONE)), msg.clone());
    push("sig", "sig-of-other-msg".into(), false, scheme, pk, refimpl::sign::<C::R>(scheme, sk, &other_msg), msg.clone());
    push("sig", "sig-by-other-key".into(), false, scheme, pk, refimpl::sign::<C::R>(scheme, &other_sk, &msg), msg.clone());
    // message perturbations
    let nbits = msg.len() * 8;
    if exhaustive {
        for b in 0..nbits {
            push("bitflip", format!("msg-bit-{b}"), false, scheme, pk, sig, gen::flip_bit(&msg, b));
        }
    } else if nbits > 0 {
        for _ in 0..16.min(nbits) {
            let b = gen::below(&mut rng, nbits);
            push("bitflip", format!("msg-bit-{b}"), false, scheme, pk, sig, gen::flip_bit(&msg, b));
        }
        // always the first and the last bit
        push("bitflip", "msg-bit-0".into(), false, scheme, pk, sig, gen::flip_bit(&msg, 0));
        push("bitflip", format!("msg-bit-{}", nbits - 1), false, scheme, pk, sig, gen::flip_bit(&msg, nbits - 1));
    } else {
        // empty message: the nearest neighbours are the one-byte messages
        push("bitflip", "empty->00".into(), false, scheme, pk, sig, vec![0]);
        push("bitflip", "empty->80".into(), false, scheme, pk, sig, vec![0x80]);
    }
    if !msg.is_empty() {
        push("msglen", "truncate-1".into(), false, scheme, pk, sig, msg[..msg.len() - 1].to_vec());
        push("msglen", "empty".into(), false, scheme, pk, sig, vec![]);
        push("msglen", "drop-first".into(), false, scheme, pk, sig, msg[1..].to_vec());
    }
    {
        let mut m = msg.clone();
        m.push(0);
        push("msglen", "extend-00".into(), false, scheme, pk, sig, m);
        let mut m = vec![0u8];
        m.extend_from_slice(&msg);
        push("msglen", "prepend-00".into(), false, scheme, pk, sig, m);
    }
    // key perturbations
    push("pk", "other-key".into(), false, scheme, other_pk, sig, msg.clone());
    push("pk", "pk+G".into(), false, scheme, pk.add(g_pk), sig, msg.clone());
    push("pk", "-pk".into(), false, scheme, pk.neg(), sig, msg.clone());
    push("pk", "2*pk".into(), false, scheme, pk.mul(&two), sig, msg.clone());
    // the identity in either or both positions: the pairing equation holds trivially for
    // (O, O) and the reference rejects by key / signature validation (C04 enumerates the
    // identity at every entry point; here the three tuples take part in the comparison with
    // the reference like every other tuple)
    push("identity", "pk=O,sig=O".into(), false, scheme, RPk::<C>::id(), RSig::<C>::id(), msg.clone());
    push("identity", "pk=O".into(), false, scheme, RPk::<C>::id(), sig, msg.clone());
    push("identity", "sig=O".into(), false, scheme, pk, RSig::<C>::id(), msg.clone());
    // scheme relabelling of the same point
    for o in scheme.others() {
        push("relabel", format!("as-{}", o.name()), false, o, pk, sig, msg.clone());
    }
    // valid, algebraically related
    let q = g_sig.mul(&gen::random_scalar(&mut rng));
    push("valid", "(sig+Q)-Q".into(), true, scheme, pk, sig.add(q).sub(q), msg.clone());
    let half: RS = Option::<RS>::from(two.invert()).unwrap();
    push("valid", "2*(sig/2)".into(), true, scheme, pk, sig.mul(&half).mul(&two), msg.clone());
    push("valid", "decode(encode(sig))".into(), true, scheme, pk, RSig::<C>::dec(&sig.enc()).unwrap(), msg.clone());
    // key sum / signature sum over ONE message: valid under Basic and PoP, not under Aug
    let sum_sig = sig.add(refimpl::sign::<C::R>(scheme, &other_sk, &msg));
    push("valid", "keysum+sigsum".into(), scheme != Scheme::Aug, scheme, pk.add(other_pk), sum_sig, msg.clone());
    // (sk+sk') signs directly: always valid under the summed key
    let sk_sum = *sk + other_sk;
    push("valid", "sum-key-signs".into(), true, scheme, pk.add(other_pk), refimpl::sign::<C::R>(scheme, &sk_sum, &msg), msg.clone());

    // history pass: the decision is a function of the tuple alone. Around every INVALID tuple the
    // honest one is asked (accept), the invalid one twice in a row (reject, reject), the honest one
    // again (accept): a verdict carried over from the previous question, or from the first time
    // the same question was asked, shows as a wrong answer in this sequence.
    {
        let hon_pk = PublicKey::<C>(lp::<C>(pk));
        let hon_sig = wrap_sig::<C>(scheme, ls::<C>(sig));
        let mut asked = 0u64;
        for (kind, name, expect, t) in cases.iter() {
            if *expect {
                continue;
            }
            let lpk = PublicKey::<C>(lp::<C>(t.pk));
            let lsig = wrap_sig::<C>(t.scheme, ls::<C>(t.sig));
            let seq = ctx.guard("Signature::verify (history pass)", || json!({"variant":name}), || {
                [
                    hon_sig.verify(&hon_pk, &msg).is_ok(),
                    lsig.verify(&lpk, &t.msg).is_ok(),
                    lsig.verify(&lpk, &t.msg).is_ok(),
                    hon_sig.verify(&hon_pk, &msg).is_ok(),
                ]
            });
            let Some(seq) = seq else { continue };
            asked += 4;
            ctx.expect(seq == [true, false, false, true], &format!("C02/history-dependent/Signature::verify/{}/{}/{kind}", C::NAME, t.scheme.name()), || {
                json!({"what":"sequence honest, invalid, invalid, honest must answer accept, reject, reject, accept","answers":seq.to_vec(),
                       "suite":C::NAME,"scheme":t.scheme.name(),"variant":name,"kind":kind,"sk_class":kname,
                       "honest":{"pk":hex::encode(pk.enc()),"sig":hex::encode(sig.enc()),"msg":hx(&msg),"scheme":scheme.name()},
                       "invalid":{"pk":hex::encode(t.pk.enc()),"sig":hex::encode(t.sig.enc()),"msg":hx(&t.msg),"scheme":t.scheme.name()}})
            });
        }
        ctx.count("history_pass_questions", asked);
    }
    for (kind, name, expect, t) in cases {
        let pkb = t.pk.enc();
        let sgb = t.sig.enc();
        let rdec = refimpl::verify::<C::R>(t.scheme, &pkb, &sgb, &t.msg);
        if rdec != expect {
            ctx.harness_error(format!("C02 expectation != reference for {name} ({}, {})", C::NAME, t.scheme.name()));
            continue;
        }
        let lpk = PublicKey::<C>(lp::<C>(t.pk));
        let lsig_pt = ls::<C>(t.sig);
        let lsig = wrap_sig::<C>(t.scheme, lsig_pt);
        let d = |entry: &str, got: bool| {
            json!({"entry":entry,"suite":C::NAME,"scheme":t.scheme.name(),"variant":name,"kind":kind,"sk_class":kname,
                   "pk":hex::encode(&pkb),"sig":hex::encode(&sgb),"msg":hx(&t.msg),"expected_accept":expect,"library_accept":got,"reference_accept":rdec})
        };
        let cell = format!("{}/{}/{}", C::NAME, scheme.name(), kind);
        // entry 1: Signature::verify
        let got = ctx.guard("Signature::verify", || d("Signature::verify", false), || lsig.verify(&lpk, &t.msg).is_ok());
        if let Some(got) = got {
            let what = if expect { "valid-rejected" } else { "invalid-accepted" };
            ctx.expect(got == expect, &format!("C02/{what}/Signature::verify/{}/{}/{kind}", C::NAME, t.scheme.name()), || d("Signature::verify", got));
            ctx.hit(&cell, &[b"sig", &pkb, &sgb, &t.msg, &[t.scheme.wire()]]);
        }
        // the same tuple with the key and / or the signature point in another internal
        // representation (Jacobian coordinates rescaled with -1; equal as group elements, same
        // bytes): the decision must not change. A fresh computation (k*G form) is tried as well.
        {
            let reps_pk: Vec<(&str, PkPt<C>)> = [("rescaled(-1)", C::pk_other_representation(&lpk.0)), ("(P+G)-G", Some((lpk.0 + pk_gen::<C>()) - pk_gen::<C>()))].into_iter().filter_map(|(n, p)| p.map(|p| (n, p))).collect();
            let reps_sig: Vec<(&str, SigPt<C>)> = [("rescaled(-1)", C::sig_other_representation(&lsig_pt)), ("as-decoded", Some(lsig_pt))].into_iter().filter_map(|(n, p)| p.map(|p| (n, p))).collect();
            for (pn, pp) in &reps_pk {
                for (sn2, sp) in &reps_sig {
                    if enc_pt(pp) != pkb || enc_pt(sp) != sgb {
                        ctx.harness_error(format!("C02: representation {pn}/{sn2} does not encode to the same bytes"));
                        continue;
                    }
                    let rsig = wrap_sig::<C>(t.scheme, *sp);
                    let rpk = PublicKey::<C>(*pp);
                    let got = ctx.guard("Signature::verify (other representation)", || d("Signature::verify", false), || rsig.verify(&rpk, &t.msg).is_ok());
                    if let Some(got) = got {
                        ctx.expect(got == expect, &format!("C02/representation-dependent/{}/{}/{kind}", C::NAME, t.scheme.name()), || {
                            let mut x = d("Signature::verify", got);
                            x["what"] = json!("the decision changes when the same points are held in another internal representation");
                            x["pk_representation"] = json!(pn);
                            x["sig_representation"] = json!(sn2);
                            x
                        });
                        ctx.count("representation_variants", 1);
                    }
                }
            }
        }
        // entry 2: MultiSignature::verify with the same point under the same key
        let m = wrap_multi::<C>(t.scheme, lsig_pt);
        let got = ctx.guard("MultiSignature::verify", || d("MultiSignature::verify", false), || m.verify(MultiPublicKey(lpk.0), &t.msg).is_ok());
        if let Some(got) = got {
            let what = if expect { "valid-rejected" } else { "invalid-accepted" };
            ctx.expect(got == expect, &format!("C02/{what}/MultiSignature::verify/{}/{}/{kind}", C::NAME, t.scheme.name()), || d("MultiSignature::verify", got));
            ctx.hit(&cell, &[b"multi", &pkb, &sgb, &t.msg, &[t.scheme.wire()]]);
        }
        // entry 3: PublicKeyShare::verify (share containers with identifier 1)
        let pks = PublicKeyShare::<C>(pk_share_raw::<C>(1, &pkb));
        let ss = wrap_sig_share::<C>(t.scheme, sig_share_raw::<C>(1, &sgb));
        let got = ctx.guard("PublicKeyShare::verify", || d("PublicKeyShare::verify", false), || pks.verify(&ss, &t.msg).is_ok());
        if let Some(got) = got {
            let what = if expect { "valid-rejected" } else { "invalid-accepted" };
            ctx.expect(got == expect, &format!("C02/{what}/PublicKeyShare::verify/{}/{}/{kind}", C::NAME, t.scheme.name()), || d("PublicKeyShare::verify", got));
            ctx.hit(&cell, &[b"share", &pkb, &sgb, &t.msg, &[t.scheme.wire()]]);
        }
        ctx.sample(&cell, || d("Signature::verify", expect));
    }
}
