//! C03 - keys, signatures and proofs of possession match the IETF BLS ciphersuites
//! (byte-level differential against the reference oracle, both directions).

use super::util::*;
use crate::gen::{self, Content};
use crate::refimpl::{self, Scheme, RC, RG, SCHEMES};
use crate::suite::*;
use crate::{for_both, hx, Ctx};
use blsful::*;
use serde_json::json;

pub const RULE: &str = "differential, byte level: (a) seeds of length 0..=64 and 1024 -> SecretKey::from_hash vs reference HKDF KeyGen written over HMAC-SHA-256; SecretKey::random with a known-stream RNG vs KeyGen(first 32 stream bytes); (b) keys (edge + random) -> public_key vs reference SkToPk; (c) keys x messages (length classes; and messages equal to / starting with / one byte short of the signer's own public key) x 3 schemes -> sign vs reference Sign, incl. wire form = variant byte || compressed point; proof_of_possession vs PopProve; (d) aggregate / multi-signature accumulation vs reference point sum, also for lists that contain the identity signature (first, second, middle, last, twice) or the first entry again, through both accumulation doors; (e) cross-verification both ways; (f) the 8 signature/PoP tag constants vs the draft's literal strings (finite, exhaustive). Distinct by (suite, op, input bytes); non-trivial = both sides produced an output that was compared byte for byte. (g) history clusters (3 quick / 48 thorough per group, one with msg = the key's own public-key bytes): {sign, verify} x 3 schemes x 2 group assignments + proof of possession x 2 over one (key, message), every ordered pair (a,b) asked as a,b,b,a; every answer must be the reference's bytes.";

pub fn run(ctx: &mut Ctx) {
    for_both!(run_suite, ctx);
}

fn run_suite<C: Suite>(ctx: &mut Ctx) {
    let base: u64 = if C::NAME == "G1Impl" { 0 } else { 1 << 32 };
    let mut g = base;
    let n = C::NAME;

    // (f) tag constants, exhaustive
    g += 1;
    if ctx.mine(g) {
        let tags: [(&str, &[u8], &[u8]); 4] = [
            ("NUL", <C as BlsSignatureBasic>::DST, <C::R as RC>::DST_NUL),
            ("AUG", <C as BlsSignatureMessageAugmentation>::DST, <C::R as RC>::DST_AUG),
            ("POP_SIG", <C as BlsSignaturePop>::SIG_DST, <C::R as RC>::DST_POP_SIG),
            ("POP_POP", <C as BlsSignaturePop>::POP_DST, <C::R as RC>::DST_POP_POP),
        ];
        for (name, lib, draft) in tags {
            let cell = format!("{n}/tag/{name}");
            ctx.expect(lib == draft, &format!("C03/tag/{n}/{name}"), || {
                json!({"what":"tag constant differs from the draft literal","lib":String::from_utf8_lossy(lib),"draft":String::from_utf8_lossy(draft)})
            });
            ctx.hit(&cell, &[lib]);
        }
        if !ctx.exhaustive.contains(&"tag constants (8)".to_string()) {
            ctx.exhaustive.push("tag constants (8)".to_string());
        }
    }
    for name in ["NUL", "AUG", "POP_SIG", "POP_POP"] {
        ctx.require(&format!("{n}/tag/{name}"));
    }

    // (g) history clusters: sign / verify / prove possession of one key over one message under
    // every scheme and both group assignments, in every ordered pair as a,b,b,a; every answer
    // must be the reference's bytes whatever was asked before
    ctx.require(&format!("{n}/history"));
    for i in 0..ctx.tier.pick(3, 48) {
        g += 1;
        if !ctx.mine(g) {
            continue;
        }
        let mut rng = ctx.rng(g);
        let sk = gen::random_scalar(&mut rng);
        let mut msg = gen::message([32usize, 0, 48, 96, 1, 129][i % 6], gen::Content::Random, &mut rng);
        if i % 3 == 1 {
            msg = pk_bytes(&sk_from_rs::<C>(&sk).public_key());
        }
        super::c01::history_cluster::<C>(ctx, "C03", &sk, &msg);
    }

    // (a) KeyGen from seeds
    let mut seed_lens: Vec<usize> = (0..=64).collect();
    seed_lens.push(1024);
    if ctx.tier == crate::Tier::Thorough {
        seed_lens.extend([65, 100, 127, 128, 129, 255, 256, 4096]);
    }
    let reps = ctx.tier.pick(1, 24);
    for &len in &seed_lens {
        for rep in 0..reps {
            g += 1;
            if !ctx.mine(g) {
                continue;
            }
            let mut rng = ctx.rng(g);
            let seed = if rep == 0 {
                gen::message(len, Content::Counter, &mut rng)
            } else {
                gen::random_bytes(len, &mut rng)
            };
            let lib = ctx.guard("SecretKey::from_hash", || json!({"seed":hx(&seed)}), || {
                SecretKey::<C>::from_hash(&seed)
            });
            let Some(lib) = lib else { continue };
            let r = refimpl::keygen(&seed);
            ctx.expect(lib.to_be_bytes() == r.to_be_bytes(), &format!("C03/keygen/{n}"), || {
                json!({"what":"from_hash differs from reference KeyGen","seed":hx(&seed),
                       "lib":hex::encode(lib.to_be_bytes()),"ref":hex::encode(r.to_be_bytes())})
            });
            // the convenience entry points must agree
            let via_enum = SecretKeyEnum::from_hash(C::CURVE, &seed);
            let via_bls = BlsSignature::<C>::secret_key_from_hash(&seed);
            let enum_ok = match (&via_enum, C::CURVE) {
                (SecretKeyEnum::G1(k), Bls12381::G1) => k.to_be_bytes() == r.to_be_bytes(),
                (SecretKeyEnum::G2(k), Bls12381::G2) => k.to_be_bytes() == r.to_be_bytes(),
                _ => false,
            };
            ctx.expect(enum_ok && via_bls.to_be_bytes() == r.to_be_bytes(), &format!("C03/keygen-wrappers/{n}"), || {
                json!({"what":"SecretKeyEnum::from_hash / BlsSignature::secret_key_from_hash differ from KeyGen","seed":hx(&seed)})
            });
            ctx.hit(&format!("{n}/keygen/from_hash"), &[&seed]);
            ctx.sample(&format!("{n}/keygen/from_hash"), || {
                json!({"seed":hx(&seed),"sk":hex::encode(r.to_be_bytes())})
            });
        }
    }
    ctx.require(&format!("{n}/keygen/from_hash"));

    // SecretKey::random with a known stream
    for _ in 0..ctx.tier.pick(8, 400) {
        g += 1;
        if !ctx.mine(g) {
            continue;
        }
        let mut rng = ctx.rng(g);
        let stream = gen::random_bytes(64, &mut rng);
        let lib = SecretKey::<C>::random(KnownRng::new(stream.clone()));
        let r = refimpl::keygen(&stream[..32]);
        ctx.expect(lib.to_be_bytes() == r.to_be_bytes(), &format!("C03/keygen-random/{n}"), || {
            json!({"what":"SecretKey::random(rng) != KeyGen(first 32 rng bytes)","stream":hex::encode(&stream)})
        });
        let lib2 = BlsSignature::<C>::random_secret_key(KnownRng::new(stream.clone()));
        ctx.expect(lib2.to_be_bytes() == r.to_be_bytes(), &format!("C03/keygen-random-wrapper/{n}"), || {
            json!({"what":"BlsSignature::random_secret_key != KeyGen(first 32 rng bytes)","stream":hex::encode(&stream)})
        });
        ctx.hit(&format!("{n}/keygen/random"), &[&stream]);
    }
    ctx.require(&format!("{n}/keygen/random"));

    // (b),(c) keys x messages x schemes
    let mut erng = ctx.rng_l(base, "edges");
    let mut keys = gen::edge_scalars(&mut erng);
    for _ in 0..ctx.tier.pick(4, 200) {
        keys.push(("random", gen::random_scalar(&mut erng)));
    }
    let lens: &[usize] = ctx.tier.pick(gen::LENGTHS_SMALL, gen::LENGTHS_FULL);
    for (kname, sk_rs) in &keys {
        g += 1;
        let mine_key = ctx.mine(g);
        let sk = sk_from_rs::<C>(sk_rs);
        if mine_key {
            let pkb = pk_bytes(&sk.public_key());
            let rpk = refimpl::sk_to_pk::<C::R>(sk_rs).enc();
            ctx.expect(pkb == rpk, &format!("C03/sk_to_pk/{n}"), || {
                json!({"what":"public key bytes differ from reference SkToPk","sk":hex::encode(sk_rs.to_be_bytes()),
                       "lib":hex::encode(&pkb),"ref":hex::encode(&rpk)})
            });
            ctx.hit(&format!("{n}/sk_to_pk"), &[&sk_rs.to_be_bytes()]);
            // PoP
            if let Some(Ok(pop)) = ctx.guard("SecretKey::proof_of_possession", || json!({}), || sk.proof_of_possession()) {
                let lb = Vec::from(&pop);
                let rb = refimpl::pop_prove::<C::R>(sk_rs).enc();
                ctx.expect(lb == rb, &format!("C03/pop/{n}"), || {
                    json!({"what":"proof of possession differs from reference PopProve","sk":hex::encode(sk_rs.to_be_bytes()),
                           "lib":hex::encode(&lb),"ref":hex::encode(&rb)})
                });
                ctx.expect(refimpl::pop_verify::<C::R>(&pkb, &lb), &format!("C03/pop-ref-verify/{n}"), || {
                    json!({"what":"reference PopVerify rejects the library's proof"})
                });
                // library verifies the reference's proof
                let rp = ProofOfPossession::<C>::try_from(rb.as_slice());
                let ok = matches!(rp, Ok(p) if p.verify(sk.public_key()).is_ok());
                ctx.expect(ok, &format!("C03/pop-lib-verify/{n}"), || {
                    json!({"what":"library rejects the reference's proof of possession"})
                });
                ctx.hit(&format!("{n}/pop"), &[&sk_rs.to_be_bytes()]);
            }
        }
        // message shapes: the length classes with random content, plus messages that START WITH
        // (or are) the signer's own compressed public key - the augmentation scheme must still
        // prepend the key to those
        let own_pk = pk_bytes(&sk.public_key());
        let mut shapes: Vec<(usize, u8)> = lens.iter().map(|l| (*l, 0u8)).collect();
        shapes.extend([(0usize, 1u8), (7, 2), (0, 3)]);
        for scheme in SCHEMES {
            for &(len, shape) in &shapes {
                g += 1;
                if !ctx.mine(g) {
                    continue;
                }
                let mut rng = ctx.rng(g);
                let msg = match shape {
                    0 => gen::message(len, Content::Random, &mut rng),
                    1 => own_pk.clone(),
                    2 => [own_pk.clone(), gen::random_bytes(len, &mut rng)].concat(),
                    _ => own_pk[..own_pk.len() - 1].to_vec(),
                };
                let Some(Ok(sig)) = ctx.guard("SecretKey::sign", || json!({"msg":hx(&msg)}), || sk.sign(lscheme(scheme), &msg)) else {
                    ctx.violation(&format!("C03/sign-failed/{n}/{}", scheme.name()), json!({"sk":hex::encode(sk_rs.to_be_bytes())}));
                    continue;
                };
                let lp = sig_pt_bytes(&sig);
                let rp = refimpl::sign::<C::R>(scheme, sk_rs, &msg).enc();
                let sigp = format!("{n}/{}", scheme.name());
                ctx.expect(lp == rp, &format!("C03/sign/{sigp}"), || {
                    json!({"what":"signature bytes differ from the reference","sk":hex::encode(sk_rs.to_be_bytes()),"sk_class":kname,
                           "msg":hx(&msg),"lib":hex::encode(&lp),"ref":hex::encode(&rp)})
                });
                // wire form = variant byte || standard compressed point
                let wire = Vec::from(&sig);
                let mut exp = vec![scheme.wire()];
                exp.extend_from_slice(&rp);
                ctx.expect(wire == exp, &format!("C03/sign-wire/{sigp}"), || {
                    json!({"what":"Vec::from(&Signature) is not variant byte || compressed point","lib":hex::encode(&wire),"expected":hex::encode(&exp)})
                });
                // library verifies what the reference signed (built from reference bytes)
                let pk = sk.public_key();
                let from_ref = Signature::<C>::try_from(exp.as_slice());
                let ok = matches!(&from_ref, Ok(s) if s.verify(&pk, &msg).is_ok());
                ctx.expect(ok, &format!("C03/lib-verifies-ref/{sigp}"), || {
                    json!({"what":"library rejects a reference-produced signature","sig":hex::encode(&exp),"msg":hx(&msg)})
                });
                let cell = format!("{sigp}/sign");
                ctx.hit(&cell, &[&sk_rs.to_be_bytes(), &msg]);
                ctx.sample(&cell, || json!({"sk_class":kname,"msg_len":msg.len(),"sig":hex::encode(&wire),"equal_to_reference":lp==rp}));
            }
            ctx.require(&format!("{n}/{}/sign", scheme.name()));
        }
    }
    ctx.require(&format!("{n}/sk_to_pk"));
    ctx.require(&format!("{n}/pop"));

    // (d) aggregation = point sum
    for scheme in SCHEMES {
        for &cnt in ctx.tier.pick(&[2usize, 3, 8][..], &[2usize, 3, 4, 8, 16, 33, 64][..]) {
            g += 1;
            if !ctx.mine(g) {
                continue;
            }
            let mut rng = ctx.rng(g);
            let mut sigs = Vec::new();
            let mut rsum = RSig::<C>::id();
            let common = gen::random_bytes(20, &mut rng);
            for i in 0..cnt {
                let k = gen::random_scalar(&mut rng);
                let mut m = common.clone();
                m.push(i as u8);
                let s = sk_from_rs::<C>(&k).sign(lscheme(scheme), &m).expect("sign");
                rsum = rsum.add(refimpl::sign::<C::R>(scheme, &k, &m));
                sigs.push(s);
            }
            let agg = AggregateSignature::<C>::from_signatures(&sigs);
            let sigp = format!("{n}/{}", scheme.name());
            match agg {
                Ok(a) => {
                    let ab = enc_pt(&agg_pt(&a));
                    ctx.expect(ab == rsum.enc() && agg_scheme(&a) == scheme, &format!("C03/aggregate-sum/{sigp}"), || {
                        json!({"what":"AggregateSignature::from_signatures is not the plain group sum","n":cnt})
                    });
                    let wire = Vec::from(&a);
                    let mut exp = vec![scheme.wire()];
                    exp.extend_from_slice(&rsum.enc());
                    ctx.expect(wire == exp, &format!("C03/aggregate-wire/{sigp}"), || json!({"lib":hex::encode(&wire)}));
                }
                Err(e) => ctx.violation(&format!("C03/aggregate-refused/{sigp}"), json!({"err":e.to_string(),"n":cnt})),
            }
            if scheme != Scheme::Aug {
                match MultiSignature::<C>::from_signatures(&sigs) {
                    Ok(m) => {
                        ctx.expect(enc_pt(m.as_raw_value()) == rsum.enc() && multi_scheme(&m) == scheme, &format!("C03/multi-sum/{sigp}"), || {
                            json!({"what":"MultiSignature::from_signatures is not the plain group sum","n":cnt})
                        });
                    }
                    Err(e) => ctx.violation(&format!("C03/multi-refused/{sigp}"), json!({"err":e.to_string(),"n":cnt})),
                }
            }
            ctx.hit(&format!("{sigp}/aggregate"), &[&rsum.enc()]);
            // edge entries: the identity signature (a valid encoding; the draft's Aggregate adds
            // every entry) at the front, in the middle and at the end, and the same signature twice:
            // whatever the accumulation returns must be the plain group sum of ALL entries, through
            // both doors; refusing such a list is not asserted here
            if cnt >= 3 {
                let inf = wrap_sig::<C>(scheme, sig_id::<C>());
                let mut lists: Vec<(&str, Vec<Signature<C>>, RSig<C>)> = Vec::new();
                let mut l = sigs.clone(); l.insert(0, inf); lists.push(("identity-first", l, rsum));
                let mut l = sigs.clone(); l.insert(1, inf); lists.push(("identity-second", l, rsum));
                let mut l = sigs.clone(); l.insert(cnt / 2 + 1, inf); lists.push(("identity-middle", l, rsum));
                let mut l = sigs.clone(); l.push(inf); lists.push(("identity-last", l, rsum));
                let mut l = sigs.clone(); l.insert(1, inf); l.insert(3, inf); lists.push(("identity-twice", l, rsum));
                let mut l = sigs.clone(); l.insert(2, sigs[0]); lists.push(("first-entry-again", l, rsum.add(rsig_of::<C>(&sigs[0]))));
                for (ln, l, want) in lists {
                    for (door, got) in [
                        ("from_signatures", AggregateSignature::<C>::from_signatures(&l).ok().map(|a| enc_pt(&agg_pt(&a)))),
                        ("try_from", <AggregateSignature<C> as TryFrom<&[Signature<C>]>>::try_from(&l[..]).ok().map(|a| enc_pt(&agg_pt(&a)))),
                    ] {
                        if let Some(got) = got {
                            ctx.expect(got == want.enc(), &format!("C03/aggregate-sum/{sigp}"), || {
                                json!({"what":"the aggregate of a list with an edge entry is not the plain group sum of all entries","list":ln,"door":door,"n":l.len(),"lib":hex::encode(&got),"ref":hex::encode(want.enc())})
                            });
                            ctx.hit(&format!("{sigp}/aggregate"), &[ln.as_bytes(), door.as_bytes(), &want.enc()]);
                        }
                    }
                    if scheme != Scheme::Aug {
                        if let Ok(m) = MultiSignature::<C>::from_signatures(&l) {
                            ctx.expect(enc_pt(m.as_raw_value()) == want.enc(), &format!("C03/multi-sum/{sigp}"), || json!({"what":"the multi-signature of a list with an edge entry is not the plain group sum","list":ln,"n":l.len()}));
                        }
                    }
                }
            }
        }
        ctx.require(&format!("{n}/{}/aggregate", scheme.name()));
    }
}
