//! C04 - identity points and the zero key are never accepted or used.

use super::util::*;
use crate::gen::{self, Content};
use crate::refimpl::{self, Scheme, RG, RS, SCHEMES};
use crate::suite::*;
use crate::{for_both, Ctx};
use blsful::inner_types::{Field, Group, GroupEncoding};
use blsful::vsss_rs::Share;
use blsful::*;
use serde_json::{json, Value};

pub const RULE: &str = "enumeration of entry point x argument position (identity substituted alone and together with an otherwise honest remainder; where an all-identity combination satisfies the pairing equation trivially that combination is constructed explicitly) x scheme x group x message: Signature::verify, AggregateSignature::verify (n in {1,2,3,8[,64]}: identity key at EVERY position with the aggregate recomputed over the remaining honest pairs so that only the guard can reject; aggregate that is itself the identity from signers k and -k), MultiSignature::verify (accumulated key pk+(-pk) with the matching identity multi-signature), ProofOfPossession::verify, ProofOfKnowledge::verify and ProofOfKnowledgeTimestamp::verify (u, v, pk, y=0 incl. the algebraically satisfying forgeries), ProofCommitment::finalize (u, sig, x=0, y=0), SignCryptCiphertext::is_valid/decrypt, SignDecryptionShare::verify, TimeCryptCiphertext::decrypt (incl. a ciphertext crafted to open under the identity signature), ElGamalProof::verify/verify_and_decrypt (c1, c2, pk, each scalar = 0, sk = 0; and proofs built by the reference whose transcript is consistent with c1 = O (blinder 0) resp. pk = O, so that only the identity guard can reject); zero scalar through every byte importer and every signing entry point; identity recipient for the Result-returning encryptions. Oracle: must not succeed; positive twin (honest value restored -> same call succeeds) in the same run, a case whose twin fails is vacuous and not counted. History clusters (2 quick / 32 thorough per group): the honest questions and the same questions with the identity substituted (signatures of every scheme, two-signer aggregates with an identity-key pair added, multi-signatures, proof of possession) in every ordered pair (a,b) as a,b,b,a. Distinct by (suite, entry, position, scheme, inputs).";

pub fn run(ctx: &mut Ctx) {
    for_both!(run_suite, ctx);
}

struct K<'a> {
    ctx: &'a mut Ctx,
    suite: &'static str,
}

impl<'a> K<'a> {
    /// `accepted` = the call under test returned success; `twin` = the honest twin succeeded.
    fn must_reject(&mut self, entry: &str, pos: &str, scheme: &str, twin: bool, accepted: Option<bool>, fpd: &[&[u8]], d: impl FnOnce() -> Value) {
        let cell = format!("{}/{}/{}", self.suite, entry, pos);
        if !twin {
            self.ctx.count("vacuous", 1);
            self.ctx.count(&format!("vacuous/{cell}/{scheme}"), 1);
            return;
        }
        let Some(accepted) = accepted else { return };
        self.ctx.expect(!accepted, &format!("C04/accepted/{}/{}/{}", self.suite, entry, pos), || {
            let mut x = d();
            x["entry"] = json!(entry);
            x["position"] = json!(pos);
            x["scheme"] = json!(scheme);
            x
        });
        let mut parts: Vec<&[u8]> = vec![scheme.as_bytes()];
        parts.extend_from_slice(fpd);
        self.ctx.hit(&cell, &parts);
        self.ctx.sample(&cell, || json!({"entry":entry,"position":pos,"scheme":scheme,"accepted":accepted,"twin_accepted":twin}));
    }
}

fn run_suite<C: Suite>(ctx: &mut Ctx) {
    let base: u64 = if C::NAME == "G1Impl" { 0 } else { 1 << 32 };
    let n = C::NAME;
    let mut g = base;
    let reps = ctx.tier.pick(2, 72);

    let req = [
        "Signature::verify/pk", "Signature::verify/sig", "Signature::verify/pk+sig",
        "AggregateSignature::verify/pk@i", "AggregateSignature::verify/pk@i(repeated-message)", "AggregateSignature::verify/agg=O(k,-k)", "AggregateSignature::verify/agg=O",
        "MultiSignature::verify/mpk=O,msig=O", "MultiSignature::verify/mpk=O", "MultiSignature::verify/msig=O",
        "ProofOfPossession::verify/pk", "ProofOfPossession::verify/proof", "ProofOfPossession::verify/pk+proof",
        "ProofOfKnowledge::verify/u", "ProofOfKnowledge::verify/v", "ProofOfKnowledge::verify/pk", "ProofOfKnowledge::verify/y=0",
        "ProofOfKnowledge::verify/u=-yH,v=O", "ProofOfKnowledge::verify/pk=O,v=O",
        "ProofOfKnowledgeTimestamp::verify/u", "ProofOfKnowledgeTimestamp::verify/v", "ProofOfKnowledgeTimestamp::verify/pk", "ProofOfKnowledgeTimestamp::verify/pk=O,v=O",
        "ProofCommitment::finalize/u", "ProofCommitment::finalize/sig", "ProofCommitment::finalize/x=0", "ProofCommitment::finalize/y=0",
        "SignCryptCiphertext/u", "SignCryptCiphertext/w", "SignCryptCiphertext/u+w",
        "SignDecryptionShare::verify/share", "SignDecryptionShare::verify/pkshare", "SignDecryptionShare::verify/w", "SignDecryptionShare::verify/share+pkshare",
        "TimeCryptCiphertext::decrypt/sig", "TimeCryptCiphertext::decrypt/u", "TimeCryptCiphertext::decrypt/sig=O-crafted",
        "ElGamalProof/c1", "ElGamalProof/c2", "ElGamalProof/pk", "ElGamalProof/message_proof=0", "ElGamalProof/blinder_proof=0", "ElGamalProof/challenge=0", "ElGamalProof/sk=0",
        "zero-key/import", "zero-key/sign", "zero-key/pop", "zero-key/share-sign",
        "identity-recipient/encrypt_time_lock", "identity-recipient/encrypt_key_el_gamal", "identity-recipient/encrypt_key_el_gamal_with_proof",
    ];
    for r in req {
        ctx.require(&format!("{n}/{r}"));
    }
    // history clusters: identity-carrying questions next to their honest twins
    ctx.require(&format!("{n}/history"));
    for i in 0..ctx.tier.pick(2, 32) {
        g += 1;
        if ctx.mine(g) {
            history_cluster::<C>(ctx, g, i);
        }
    }

    for rep in 0..reps {
        for scheme in SCHEMES {
            g += 1;
            if !ctx.mine(g) {
                continue;
            }
            let mut rng = ctx.rng(g);
            let k = gen::key_for(g, &mut rng); // every fourth case: an edge scalar
            let sk = sk_from_rs::<C>(&k);
            let pk = sk.public_key();
            let len = [0usize, 1, 33, 300, 4096, 32][rep % 6];
            let msg = gen::message(len, Content::Random, &mut rng);
            let ls_ = lscheme(scheme);
            let sn = scheme.name();
            let sig = sk.sign(ls_, &msg).expect("sign");
            let spt = *sig.as_raw_value();
            let o_pk = PublicKey::<C>(pk_id::<C>());
            let o_sig = wrap_sig::<C>(scheme, sig_id::<C>());
            let kb = k.to_be_bytes();
            let dd = || json!({"suite":n,"sk":hex::encode(kb),"msg_len":msg.len()});
            let mut kx = K { ctx, suite: n };

            // 1. Signature::verify
            let twin = sig.verify(&pk, &msg).is_ok();
            let a = kx.ctx.guard("Signature::verify", dd, || sig.verify(&o_pk, &msg).is_ok());
            kx.must_reject("Signature::verify", "pk", sn, twin, a, &[&kb, &msg], dd);
            let a = kx.ctx.guard("Signature::verify", dd, || o_sig.verify(&pk, &msg).is_ok());
            kx.must_reject("Signature::verify", "sig", sn, twin, a, &[&kb, &msg], dd);
            let a = kx.ctx.guard("Signature::verify", dd, || o_sig.verify(&o_pk, &msg).is_ok());
            kx.must_reject("Signature::verify", "pk+sig", sn, twin, a, &[&kb, &msg], dd);

            // 2. AggregateSignature::verify, identity key at every position
            let sizes: &[usize] = if rep == 0 { kx.ctx.tier.pick(&[1usize, 2, 3, 8][..], &[1usize, 2, 3, 8, 64][..]) } else { &[2, 3] };
            for &cnt in sizes {
                let keys: Vec<RS> = (0..cnt).map(|_| gen::random_scalar(&mut rng)).collect();
                let msgs: Vec<Vec<u8>> = (0..cnt).map(|i| { let mut m = msg.clone(); m.extend_from_slice(&(i as u32).to_le_bytes()); m }).collect();
                let sigs: Vec<RSig<C>> = keys.iter().zip(&msgs).map(|(k, m)| refimpl::sign::<C::R>(scheme, k, m)).collect();
                let pks: Vec<PublicKey<C>> = keys.iter().map(|k| sk_from_rs::<C>(k).public_key()).collect();
                let full = wrap_agg::<C>(scheme, ls::<C>(refimpl::sum(sigs.iter().copied())));
                let data: Vec<(PublicKey<C>, Vec<u8>)> = pks.iter().copied().zip(msgs.iter().cloned()).collect();
                let twin = full.verify(&data).is_ok();
                for pos in 0..cnt {
                    if cnt == 1 {
                        // the only key is the identity, aggregate over nothing = identity; also
                        // try the honest signature
                        let d1 = vec![(o_pk, msgs[0].clone())];
                        let a = kx.ctx.guard("AggregateSignature::verify", dd, || full.verify(&d1).is_ok());
                        kx.must_reject("AggregateSignature::verify", "pk@i", sn, twin, a, &[&kb, &[1, 0]], dd);
                        continue;
                    }
                    // aggregate of the remaining honest pairs: e(H(m_pos), O) = 1, so the
                    // pairing product is satisfied and only the guard can reject
                    let rest = refimpl::sum(sigs.iter().enumerate().filter(|(i, _)| *i != pos).map(|(_, s)| *s));
                    let agg = wrap_agg::<C>(scheme, ls::<C>(rest));
                    let mut d2 = data.clone();
                    d2[pos].0 = o_pk;
                    let a = kx.ctx.guard("AggregateSignature::verify", dd, || agg.verify(&d2).is_ok());
                    kx.must_reject("AggregateSignature::verify", "pk@i", sn, twin, a, &[&kb, &[cnt as u8, pos as u8]], || {
                        let mut x = dd();
                        x["n"] = json!(cnt);
                        x["identity_at"] = json!(pos);
                        x
                    });
                }
                // aggregate that is the identity, honest list
                let agg_o = wrap_agg::<C>(scheme, sig_id::<C>());
                let a = kx.ctx.guard("AggregateSignature::verify", dd, || agg_o.verify(&data).is_ok());
                kx.must_reject("AggregateSignature::verify", "agg=O", sn, twin, a, &[&kb, &[cnt as u8]], dd);
            }
            // identity key that carries the SAME message as an earlier honest entry (allowed in
            // PoP and Aug): an implementation that merges keys per message before checking them
            // would never look at it. Aggregate = the honest pairs only, so the product is satisfied.
            if scheme != Scheme::Basic {
                for cnt in [2usize, 3, 5] {
                    let keys: Vec<RS> = (0..cnt).map(|_| gen::random_scalar(&mut rng)).collect();
                    let sigs: Vec<RSig<C>> = keys.iter().map(|k| refimpl::sign::<C::R>(scheme, k, &msg)).collect();
                    let pks: Vec<PublicKey<C>> = keys.iter().map(|k| sk_from_rs::<C>(k).public_key()).collect();
                    let agg = wrap_agg::<C>(scheme, ls::<C>(refimpl::sum(sigs.iter().copied())));
                    let honest: Vec<(PublicKey<C>, Vec<u8>)> = pks.iter().map(|p| (*p, msg.clone())).collect();
                    let twin = agg.verify(&honest).is_ok();
                    for pos in 1..=cnt {
                        let mut d2 = honest.clone();
                        d2.insert(pos, (o_pk, msg.clone()));
                        let a = kx.ctx.guard("AggregateSignature::verify", dd, || agg.verify(&d2).is_ok());
                        kx.must_reject("AggregateSignature::verify", "pk@i(repeated-message)", sn, twin, a, &[&kb, &[cnt as u8, pos as u8]], || {
                            let mut x = dd();
                            x["n"] = json!(cnt + 1);
                            x["identity_at"] = json!(pos);
                            x["note"] = json!("the identity key carries the same message as the other entries");
                            x
                        });
                    }
                }
            }
            // empty list with identity aggregate (pairing over nothing but (O,-g) is 1)
            {
                let agg_o = wrap_agg::<C>(scheme, sig_id::<C>());
                let empty: Vec<(PublicKey<C>, Vec<u8>)> = vec![];
                let a = kx.ctx.guard("AggregateSignature::verify", dd, || agg_o.verify(&empty).is_ok());
                kx.must_reject("AggregateSignature::verify", "agg=O", sn, true, a, &[&kb, b"empty"], dd);
            }
            // signers k and -k over one message (PoP/Basic semantics allow equal messages only in PoP)
            if scheme == Scheme::Pop {
                let nk = -k;
                let s1 = sk.sign(ls_, &msg).unwrap();
                let s2 = sk_from_rs::<C>(&nk).sign(ls_, &msg).unwrap();
                let pk2 = sk_from_rs::<C>(&nk).public_key();
                let data = vec![(pk, msg.clone()), (pk2, msg.clone())];
                let agg = AggregateSignature::<C>::from_signatures([s1, s2]);
                // twin: k and an unrelated key
                let k3 = gen::random_scalar(&mut rng);
                let s3 = sk_from_rs::<C>(&k3).sign(ls_, &msg).unwrap();
                let twin = AggregateSignature::<C>::from_signatures([s1, s3]).map(|a| a.verify(&[(pk, msg.clone()), (sk_from_rs::<C>(&k3).public_key(), msg.clone())]).is_ok()).unwrap_or(false);
                let a = match agg {
                    Ok(agg) => kx.ctx.guard("AggregateSignature::verify", dd, || agg.verify(&data).is_ok()),
                    Err(_) => Some(false),
                };
                kx.must_reject("AggregateSignature::verify", "agg=O(k,-k)", sn, twin, a, &[&kb, &msg], dd);
            } else {
                // keep the cell alive for the other schemes through the plain identity aggregate
                let agg_o = wrap_agg::<C>(scheme, sig_id::<C>());
                let nk = -k;
                let pk2 = sk_from_rs::<C>(&nk).public_key();
                let data = vec![(pk, msg.clone()), (pk2, { let mut m = msg.clone(); m.push(1); m })];
                let a = kx.ctx.guard("AggregateSignature::verify", dd, || agg_o.verify(&data).is_ok());
                kx.must_reject("AggregateSignature::verify", "agg=O(k,-k)", sn, true, a, &[&kb, &msg], dd);
            }

            // 3. MultiSignature::verify with accumulated key k + (-k)
            if scheme != Scheme::Aug {
                let nk = -k;
                let s1 = sk.sign(ls_, &msg).unwrap();
                let s2 = sk_from_rs::<C>(&nk).sign(ls_, &msg).unwrap();
                let pk2 = sk_from_rs::<C>(&nk).public_key();
                let mpk = MultiPublicKey::<C>::from_public_keys([pk, pk2]);
                let k3 = gen::random_scalar(&mut rng);
                let sk3 = sk_from_rs::<C>(&k3);
                let s3 = sk3.sign(ls_, &msg).unwrap();
                let twin_m = MultiSignature::<C>::from_signatures([s1, s3]).unwrap();
                let twin_pk = MultiPublicKey::<C>::from_public_keys([pk, sk3.public_key()]);
                let twin = twin_m.verify(twin_pk, &msg).is_ok();
                let a = match MultiSignature::<C>::from_signatures([s1, s2]) {
                    Ok(ms) => kx.ctx.guard("MultiSignature::verify", dd, || ms.verify(mpk, &msg).is_ok()),
                    Err(_) => Some(false),
                };
                kx.must_reject("MultiSignature::verify", "mpk=O,msig=O", sn, twin, a, &[&kb, &msg], dd);
                let a = kx.ctx.guard("MultiSignature::verify", dd, || twin_m.verify(mpk, &msg).is_ok());
                kx.must_reject("MultiSignature::verify", "mpk=O", sn, twin, a, &[&kb, &msg], dd);
                let mo = wrap_multi::<C>(scheme, sig_id::<C>());
                let a = kx.ctx.guard("MultiSignature::verify", dd, || mo.verify(twin_pk, &msg).is_ok());
                kx.must_reject("MultiSignature::verify", "msig=O", sn, twin, a, &[&kb, &msg], dd);
            } else {
                for pos in ["mpk=O,msig=O", "mpk=O", "msig=O"] {
                    let mo = wrap_multi::<C>(scheme, sig_id::<C>());
                    let mpk = MultiPublicKey::<C>(pk_id::<C>());
                    let twin = wrap_multi::<C>(scheme, spt).verify(MultiPublicKey(pk.0), &msg).is_ok();
                    let a = match pos {
                        "mpk=O" => Some(wrap_multi::<C>(scheme, spt).verify(mpk, &msg).is_ok()),
                        "msig=O" => Some(mo.verify(MultiPublicKey(pk.0), &msg).is_ok()),
                        _ => Some(mo.verify(mpk, &msg).is_ok()),
                    };
                    kx.must_reject("MultiSignature::verify", pos, sn, twin, a, &[&kb, &msg], dd);
                }
            }

            // 4. ProofOfPossession::verify
            {
                let pop = sk.proof_of_possession().expect("pop");
                let twin = pop.verify(pk).is_ok();
                let o_pop = ProofOfPossession::<C>(sig_id::<C>());
                let a = kx.ctx.guard("ProofOfPossession::verify", dd, || pop.verify(o_pk).is_ok());
                kx.must_reject("ProofOfPossession::verify", "pk", sn, twin, a, &[&kb], dd);
                let a = kx.ctx.guard("ProofOfPossession::verify", dd, || o_pop.verify(pk).is_ok());
                kx.must_reject("ProofOfPossession::verify", "proof", sn, twin, a, &[&kb], dd);
                let a = kx.ctx.guard("ProofOfPossession::verify", dd, || o_pop.verify(o_pk).is_ok());
                kx.must_reject("ProofOfPossession::verify", "pk+proof", sn, twin, a, &[&kb], dd);
            }

            // 5. proofs of knowledge (Aug through the caller-side workaround msg := pk||m)
            {
                let pmsg: Vec<u8> = if scheme == Scheme::Aug { let mut m = pk_bytes(&pk); m.extend_from_slice(&msg); m } else { msg.clone() };
                let dst = <C::R as refimpl::RC>::dst(scheme);
                let y = ProofCommitmentChallenge::<C>::from_hash(&kb);
                let yr = rs_from_sc::<C>(&y.0);
                let (com, x) = ProofCommitment::<C>::generate(&pmsg, sig).expect("commit");
                let pok = com.finalize(x, y, sig).expect("finalize");
                let twin = pok.verify(pk, &pmsg, y).is_ok();
                let (u, v) = match pok { ProofOfKnowledge::Basic { u, v } | ProofOfKnowledge::MessageAugmentation { u, v } | ProofOfKnowledge::ProofOfPossession { u, v } => (u, v) };
                let mk = |u: SigPt<C>, v: SigPt<C>| match scheme {
                    Scheme::Basic => ProofOfKnowledge::<C>::Basic { u, v },
                    Scheme::Aug => ProofOfKnowledge::<C>::MessageAugmentation { u, v },
                    Scheme::Pop => ProofOfKnowledge::<C>::ProofOfPossession { u, v },
                };
                let o = sig_id::<C>();
                let y0 = ProofCommitmentChallenge::<C>(<Sc<C> as Field>::ZERO);
                let a = kx.ctx.guard("ProofOfKnowledge::verify", dd, || mk(o, v).verify(pk, &pmsg, y).is_ok());
                kx.must_reject("ProofOfKnowledge::verify", "u", sn, twin, a, &[&kb, &msg], dd);
                let a = kx.ctx.guard("ProofOfKnowledge::verify", dd, || mk(u, o).verify(pk, &pmsg, y).is_ok());
                kx.must_reject("ProofOfKnowledge::verify", "v", sn, twin, a, &[&kb, &msg], dd);
                let a = kx.ctx.guard("ProofOfKnowledge::verify", dd, || pok.verify(o_pk, &pmsg, y).is_ok());
                kx.must_reject("ProofOfKnowledge::verify", "pk", sn, twin, a, &[&kb, &msg], dd);
                // y = 0 with the matching forgery u = x H(m), v = -x sig (satisfies the equation)
                let xr = gen::random_scalar(&mut rng);
                let (fu, fv) = refimpl::pok_prove::<C::R>(rsig_of::<C>(&sig), &pmsg, dst, &xr, &RS::ZERO);
                debug_assert!(true);
                let a = kx.ctx.guard("ProofOfKnowledge::verify", dd, || mk(ls::<C>(fu), ls::<C>(fv)).verify(pk, &pmsg, y0).is_ok());
                kx.must_reject("ProofOfKnowledge::verify", "y=0", sn, twin, a, &[&kb, &msg], dd);
                // u = -y H(m), v = O : e(O,g) e(O,pk) = 1
                let fu = <C::R as refimpl::RC>::Sig::hash(&pmsg, dst).mul(&-yr);
                let a = kx.ctx.guard("ProofOfKnowledge::verify", dd, || mk(ls::<C>(fu), o).verify(pk, &pmsg, y).is_ok());
                kx.must_reject("ProofOfKnowledge::verify", "u=-yH,v=O", sn, twin, a, &[&kb, &msg], dd);
                let a = kx.ctx.guard("ProofOfKnowledge::verify", dd, || mk(u, o).verify(o_pk, &pmsg, y).is_ok());
                kx.must_reject("ProofOfKnowledge::verify", "pk=O,v=O", sn, twin, a, &[&kb, &msg], dd);

                // timestamp variant
                let tp = ProofOfKnowledgeTimestamp::<C>::generate(&pmsg, sig).expect("ts proof");
                let twin_t = tp.verify(pk, &pmsg, None).is_ok();
                let (tu, tv) = match tp.proof { ProofOfKnowledge::Basic { u, v } | ProofOfKnowledge::MessageAugmentation { u, v } | ProofOfKnowledge::ProofOfPossession { u, v } => (u, v) };
                let mkt = |u: SigPt<C>, v: SigPt<C>| ProofOfKnowledgeTimestamp::<C> { proof: mk(u, v), timestamp: tp.timestamp };
                let a = kx.ctx.guard("ProofOfKnowledgeTimestamp::verify", dd, || mkt(o, tv).verify(pk, &pmsg, None).is_ok());
                kx.must_reject("ProofOfKnowledgeTimestamp::verify", "u", sn, twin_t, a, &[&kb, &msg], dd);
                let a = kx.ctx.guard("ProofOfKnowledgeTimestamp::verify", dd, || mkt(tu, o).verify(pk, &pmsg, None).is_ok());
                kx.must_reject("ProofOfKnowledgeTimestamp::verify", "v", sn, twin_t, a, &[&kb, &msg], dd);
                let a = kx.ctx.guard("ProofOfKnowledgeTimestamp::verify", dd, || tp.verify(o_pk, &pmsg, None).is_ok());
                kx.must_reject("ProofOfKnowledgeTimestamp::verify", "pk", sn, twin_t, a, &[&kb, &msg], dd);
                let a = kx.ctx.guard("ProofOfKnowledgeTimestamp::verify", dd, || mkt(tu, o).verify(o_pk, &pmsg, None).is_ok());
                kx.must_reject("ProofOfKnowledgeTimestamp::verify", "pk=O,v=O", sn, twin_t, a, &[&kb, &msg], dd);

                // 6. finalize
                let (com2, x2) = ProofCommitment::<C>::generate(&pmsg, sig).expect("commit");
                let twin_f = com2.finalize(x2, y, sig).is_ok();
                let com_o = match scheme { Scheme::Basic => ProofCommitment::<C>::Basic(o), Scheme::Aug => ProofCommitment::<C>::MessageAugmentation(o), Scheme::Pop => ProofCommitment::<C>::ProofOfPossession(o) };
                let a = kx.ctx.guard("ProofCommitment::finalize", dd, || com_o.finalize(x2, y, sig).is_ok());
                kx.must_reject("ProofCommitment::finalize", "u", sn, twin_f, a, &[&kb, &msg], dd);
                let a = kx.ctx.guard("ProofCommitment::finalize", dd, || com2.finalize(x2, y, o_sig).is_ok());
                kx.must_reject("ProofCommitment::finalize", "sig", sn, twin_f, a, &[&kb, &msg], dd);
                let x0 = ProofCommitmentSecret::<C>(<Sc<C> as Field>::ZERO);
                let a = kx.ctx.guard("ProofCommitment::finalize", dd, || com2.finalize(x0, y, sig).is_ok());
                kx.must_reject("ProofCommitment::finalize", "x=0", sn, twin_f, a, &[&kb, &msg], dd);
                let a = kx.ctx.guard("ProofCommitment::finalize", dd, || com2.finalize(x2, y0, sig).is_ok());
                kx.must_reject("ProofCommitment::finalize", "y=0", sn, twin_f, a, &[&kb, &msg], dd);
            }

            // 7. signcryption
            {
                let ct = pk.sign_crypt(ls_, &msg);
                let twin = bool::from(ct.is_valid()) && ct_some(ct.decrypt(&sk)).is_some();
                let probe = |kx: &mut K, c: &SignCryptCiphertext<C>| -> Option<bool> {
                    let v = kx.ctx.guard("SignCryptCiphertext::is_valid", || json!({}), || bool::from(c.is_valid()))?;
                    let d = kx.ctx.guard("SignCryptCiphertext::decrypt", || json!({}), || ct_some(c.decrypt(&sk)).is_some())?;
                    let dk = SignCryptDecryptionKey::<C>(c.u * sk.0);
                    let d2 = kx.ctx.guard("SignCryptDecryptionKey::decrypt", || json!({}), || ct_some(dk.decrypt(c)).is_some())?;
                    Some(v || d || d2)
                };
                let mut c = ct.clone();
                c.u = pk_id::<C>();
                let a = probe(&mut kx, &c);
                kx.must_reject("SignCryptCiphertext", "u", sn, twin, a, &[&kb, &msg], dd);
                let mut c = ct.clone();
                c.w = sig_id::<C>();
                let a = probe(&mut kx, &c);
                kx.must_reject("SignCryptCiphertext", "w", sn, twin, a, &[&kb, &msg], dd);
                let mut c = ct.clone();
                c.u = pk_id::<C>();
                c.w = sig_id::<C>();
                let a = probe(&mut kx, &c);
                kx.must_reject("SignCryptCiphertext", "u+w", sn, twin, a, &[&kb, &msg], dd);

                // 8. decryption shares
                let shares = sk.split(2, 3).expect("split");
                let ds = ct.create_decryption_share(&shares[0]).expect("share");
                let pks = shares[0].public_key().expect("pk share");
                // twin uses the Basic scheme because SignDecryptionShare::verify of the pinned
                // tree only handled Basic; after the repair every scheme has a live twin
                let twin = ds.verify(&pks, &ct).is_ok();
                let id = shares[0].0.identifier();
                let o_share = SignDecryptionShare::<C>(pk_share_raw::<C>(id, &enc_pt(&pk_id::<C>())));
                let o_pks = PublicKeyShare::<C>(pk_share_raw::<C>(id, &enc_pt(&pk_id::<C>())));
                let a = kx.ctx.guard("SignDecryptionShare::verify", dd, || o_share.verify(&pks, &ct).is_ok());
                kx.must_reject("SignDecryptionShare::verify", "share", sn, twin, a, &[&kb, &msg], dd);
                let a = kx.ctx.guard("SignDecryptionShare::verify", dd, || ds.verify(&o_pks, &ct).is_ok());
                kx.must_reject("SignDecryptionShare::verify", "pkshare", sn, twin, a, &[&kb, &msg], dd);
                let a = kx.ctx.guard("SignDecryptionShare::verify", dd, || o_share.verify(&o_pks, &ct).is_ok());
                kx.must_reject("SignDecryptionShare::verify", "share+pkshare", sn, twin, a, &[&kb, &msg], dd);
                let mut c = ct.clone();
                c.w = sig_id::<C>();
                let a = kx.ctx.guard("SignDecryptionShare::verify", dd, || ds.verify(&pks, &c).is_ok() || o_share.verify(&o_pks, &c).is_ok());
                kx.must_reject("SignDecryptionShare::verify", "w", sn, twin, a, &[&kb, &msg], dd);
            }

            // 9. time-lock
            {
                let id = gen::message(16, Content::Random, &mut rng);
                let ct = pk.encrypt_time_lock(ls_, &msg, &id).expect("time lock");
                let s = sk.sign(ls_, &id).expect("sign");
                let twin = ct_some(ct.decrypt(&s)).is_some();
                let a = kx.ctx.guard("TimeCryptCiphertext::decrypt", dd, || ct_some(ct.decrypt(&o_sig)).is_some());
                kx.must_reject("TimeCryptCiphertext::decrypt", "sig", sn, twin, a, &[&kb, &msg], dd);
                let mut c = ct.clone();
                c.u = pk_id::<C>();
                let a = kx.ctx.guard("TimeCryptCiphertext::decrypt", dd, || ct_some(c.decrypt(&s)).is_some() || ct_some(c.decrypt(&o_sig)).is_some());
                kx.must_reject("TimeCryptCiphertext::decrypt", "u", sn, twin, a, &[&kb, &msg], dd);
                // crafted: a ciphertext that opens under the identity signature unless guarded
                let gt_id = <<C as Pairing>::PairingResult as Group>::identity().to_bytes();
                let alpha = gen::random_scalar(&mut rng);
                let crafted = refimpl::timelock_seal_with_k::<C::R>(gt_id.as_ref(), &msg, &alpha);
                let c = TimeCryptCiphertext::<C> { u: lp::<C>(crafted.u), v: crafted.v, w: crafted.w.clone(), scheme: ls_ };
                // twin for the crafted construction: the same construction with the honest k opens
                let a = kx.ctx.guard("TimeCryptCiphertext::decrypt", dd, || ct_some(c.decrypt(&o_sig)).is_some());
                kx.must_reject("TimeCryptCiphertext::decrypt", "sig=O-crafted", sn, twin, a, &[&kb, &msg], dd);
            }

            // 10. ElGamal proof
            {
                let m = sk_from_rs::<C>(&gen::random_scalar(&mut rng));
                let proof = pk.encrypt_key_el_gamal_with_proof(&m).expect("elgamal");
                let twin = proof.verify(pk).is_ok() && proof.verify_and_decrypt(&sk).is_ok();
                let probe = |kx: &mut K, p: &ElGamalProof<C>, pk: PublicKey<C>, sk: &SecretKey<C>| -> Option<bool> {
                    let a = kx.ctx.guard("ElGamalProof::verify", || json!({}), || p.verify(pk).is_ok())?;
                    let b = kx.ctx.guard("ElGamalProof::verify_and_decrypt", || json!({}), || p.verify_and_decrypt(sk).is_ok())?;
                    Some(a || b)
                };
                let zero = <Sc<C> as Field>::ZERO;
                let mut p = proof;
                p.ciphertext.c1 = pk_id::<C>();
                let a = probe(&mut kx, &p, pk, &sk);
                kx.must_reject("ElGamalProof", "c1", sn, twin, a, &[&kb], dd);
                let mut p = proof;
                p.ciphertext.c2 = pk_id::<C>();
                let a = probe(&mut kx, &p, pk, &sk);
                kx.must_reject("ElGamalProof", "c2", sn, twin, a, &[&kb], dd);
                let a = kx.ctx.guard("ElGamalProof::verify", dd, || proof.verify(o_pk).is_ok());
                kx.must_reject("ElGamalProof", "pk", sn, twin, a, &[&kb], dd);
                let mut p = proof;
                p.message_proof = zero;
                let a = probe(&mut kx, &p, pk, &sk);
                kx.must_reject("ElGamalProof", "message_proof=0", sn, twin, a, &[&kb], dd);
                let mut p = proof;
                p.blinder_proof = zero;
                let a = probe(&mut kx, &p, pk, &sk);
                kx.must_reject("ElGamalProof", "blinder_proof=0", sn, twin, a, &[&kb], dd);
                let mut p = proof;
                p.challenge = zero;
                let a = probe(&mut kx, &p, pk, &sk);
                kx.must_reject("ElGamalProof", "challenge=0", sn, twin, a, &[&kb], dd);
                let sk0 = SecretKey::<C>(zero);
                let a = kx.ctx.guard("ElGamalProof::verify_and_decrypt", dd, || proof.verify_and_decrypt(&sk0).is_ok());
                kx.must_reject("ElGamalProof", "sk=0", sn, twin, a, &[&kb], dd);
                // purpose-built proofs whose Fiat-Shamir transcript is CONSISTENT with the identity
                // component (the plain substitutions above already fail at the challenge
                // comparison, so only the identity guard can reject these): blinder 0 gives
                // c1 = O, c2 = m*H with a matching challenge; pk = O likewise
                {
                    let fr = |p: &refimpl::RElGamalProof<C::R>| ElGamalProof::<C> {
                        ciphertext: ElGamalCiphertext { c1: lp::<C>(p.c1), c2: lp::<C>(p.c2) },
                        message_proof: sc_from_rs::<C>(&p.message_proof),
                        blinder_proof: sc_from_rs::<C>(&p.blinder_proof),
                        challenge: sc_from_rs::<C>(&p.challenge),
                    };
                    let mm = gen::random_scalar(&mut rng);
                    let rr = gen::random_scalar(&mut rng);
                    let bb = gen::random_scalar(&mut rng);
                    // twin of the construction: the reference proof with a non-zero blinder verifies
                    let honest = fr(&refimpl::elgamal_prove::<C::R>(rpk_of::<C>(&pk), &mm, &bb, &rr));
                    let twin2 = twin && honest.verify(pk).is_ok();
                    let forged = fr(&refimpl::elgamal_prove::<C::R>(rpk_of::<C>(&pk), &mm, &refimpl::RS::ZERO, &rr));
                    let a = probe(&mut kx, &forged, pk, &sk);
                    kx.must_reject("ElGamalProof", "c1", sn, twin2, a, &[&kb, b"consistent transcript, blinder = 0"], dd);
                    let forged_pk = fr(&refimpl::elgamal_prove::<C::R>(RPk::<C>::id(), &mm, &bb, &rr));
                    let a = kx.ctx.guard("ElGamalProof::verify", dd, || forged_pk.verify(o_pk).is_ok());
                    kx.must_reject("ElGamalProof", "pk", sn, twin2, a, &[&kb, b"consistent transcript, pk = O"], dd);
                }
            }

            // 11. zero key
            {
                let z = [0u8; 32];
                let mut zt = vec![u8::from(C::CURVE)];
                zt.extend_from_slice(&z);
                let imports: Vec<(&str, bool)> = vec![
                    ("SecretKey::from_be_bytes", ct_some(SecretKey::<C>::from_be_bytes(&z)).is_some()),
                    ("SecretKey::from_le_bytes", ct_some(SecretKey::<C>::from_le_bytes(&z)).is_some()),
                    ("SecretKey::try_from", SecretKey::<C>::try_from(&z[..]).is_ok()),
                    ("SecretKey::try_from(Vec)", SecretKey::<C>::try_from(z.to_vec()).is_ok()),
                    ("SecretKeyEnum::try_from", SecretKeyEnum::try_from(&zt[..]).is_ok()),
                    ("SecretKeyEnum::from_be_bytes", ct_some(SecretKeyEnum::from_be_bytes(&zt)).is_some()),
                    ("SecretKeyEnum::from_le_bytes", ct_some(SecretKeyEnum::from_le_bytes(&zt)).is_some()),
                    ("ProofCommitmentSecret::try_from", ProofCommitmentSecret::<C>::try_from(&z[..]).is_ok()),
                    ("ProofCommitmentSecret::from_be_bytes", ct_some(ProofCommitmentSecret::<C>::from_be_bytes(&z)).is_some()),
                    ("ProofCommitmentSecret::from_le_bytes", ct_some(ProofCommitmentSecret::<C>::from_le_bytes(&z)).is_some()),
                    ("ProofCommitmentChallenge::try_from", ProofCommitmentChallenge::<C>::try_from(&z[..]).is_ok()),
                    ("ProofCommitmentChallenge::from_be_bytes", ct_some(ProofCommitmentChallenge::<C>::from_be_bytes(&z)).is_some()),
                    ("ProofCommitmentChallenge::from_le_bytes", ct_some(ProofCommitmentChallenge::<C>::from_le_bytes(&z)).is_some()),
                ];
                // twin: the scalar 1 is imported by the plain importers
                let mut one = [0u8; 32];
                one[31] = 1;
                let twin = ct_some(SecretKey::<C>::from_be_bytes(&one)).is_some();
                for (name, acc) in imports {
                    kx.ctx.expect(!acc, &format!("C04/zero-imported/{n}/{name}"), || json!({"what":"zero scalar imported from bytes","entry":name}));
                    if twin {
                        kx.ctx.hit(&format!("{n}/zero-key/import"), &[name.as_bytes()]);
                    }
                }
                let sk0 = SecretKey::<C>(<Sc<C> as Field>::ZERO);
                let twin = sk.sign(ls_, &msg).is_ok();
                let a = kx.ctx.guard("SecretKey::sign", dd, || sk0.sign(ls_, &msg).is_ok());
                kx.must_reject("zero-key", "sign", sn, twin, a, &[&msg], dd);
                let a = kx.ctx.guard("SecretKey::proof_of_possession", dd, || sk0.proof_of_possession().is_ok());
                kx.must_reject("zero-key", "pop", sn, sk.proof_of_possession().is_ok(), a, &[&msg], dd);
                if scheme != Scheme::Aug {
                    let mut raw = [0u8; 33];
                    raw[0] = 1;
                    let share0: Option<SecretKeyShare<C>> = serde_bare::from_slice(&raw).ok();
                    if let Some(share0) = share0 {
                        let shares = sk.split(2, 3).expect("split");
                        let twin = shares[0].sign(ls_, &msg).is_ok();
                        let a = kx.ctx.guard("SecretKeyShare::sign", dd, || share0.sign(ls_, &msg).is_ok());
                        kx.must_reject("zero-key", "share-sign", sn, twin, a, &[&msg], dd);
                    } else {
                        kx.ctx.harness_error("cannot build a zero-valued secret share".into());
                    }
                }
            }

            // 12. identity recipient
            {
                let id = b"id";
                let twin = pk.encrypt_time_lock(ls_, &msg, id).is_ok();
                let a = kx.ctx.guard("PublicKey::encrypt_time_lock", dd, || o_pk.encrypt_time_lock(ls_, &msg, id).is_ok());
                kx.must_reject("identity-recipient", "encrypt_time_lock", sn, twin, a, &[&msg], dd);
                let m = sk_from_rs::<C>(&gen::random_scalar(&mut rng));
                let twin = pk.encrypt_key_el_gamal(&m).is_ok();
                let a = kx.ctx.guard("PublicKey::encrypt_key_el_gamal", dd, || o_pk.encrypt_key_el_gamal(&m).is_ok());
                kx.must_reject("identity-recipient", "encrypt_key_el_gamal", sn, twin, a, &[&msg], dd);
                let twin = pk.encrypt_key_el_gamal_with_proof(&m).is_ok();
                let a = kx.ctx.guard("PublicKey::encrypt_key_el_gamal_with_proof", dd, || o_pk.encrypt_key_el_gamal_with_proof(&m).is_ok());
                kx.must_reject("identity-recipient", "encrypt_key_el_gamal_with_proof", sn, twin, a, &[&msg], dd);
            }
        }
    }
}

/// The honest questions (accepted) and the same questions with the identity substituted (never
/// accepted) for signatures of every scheme, the proof of possession, multi-signatures and
/// two-signer aggregates, asked in every ordered pair as a, b, b, a: an identity must not be let
/// through because an honest value has just been accepted, nor an honest value refused because an
/// identity has just been rejected.
fn history_cluster<C: Suite>(ctx: &mut Ctx, g: u64, i: usize) {
    use super::history::{q, sandwiches, Q};
    let mut rng = ctx.rng(g);
    let n = C::NAME;
    let k = gen::random_scalar(&mut rng);
    let sk = sk_from_rs::<C>(&k);
    let pk = sk.public_key();
    let sk2 = sk_from_rs::<C>(&gen::random_scalar(&mut rng));
    let pk2 = sk2.public_key();
    let msg = gen::message([32usize, 0, 7, 100][i % 4], Content::Random, &mut rng);
    let mut msg2 = msg.clone();
    msg2.push(2);
    let o_pk = PublicKey::<C>(pk_id::<C>());
    type A = Option<Vec<u8>>;
    let verdict = |b: bool| -> A { Some(vec![b as u8]) };
    let mut qs: Vec<Q<A>> = Vec::new();
    let (msgr, msg2r) = (&msg, &msg2);
    for s1 in SCHEMES {
        let Ok(sig) = sk.sign(lscheme(s1), &msg) else { return };
        let o_sig = wrap_sig::<C>(s1, sig_id::<C>());
        let sn = s1.name();
        qs.push(q(format!("verify/{sn}/honest"), verdict(true), move || verdict(sig.verify(&pk, msgr).is_ok())));
        qs.push(q(format!("verify/{sn}/pk=O,sig=O"), verdict(false), move || verdict(o_sig.verify(&o_pk, msgr).is_ok())));
        qs.push(q(format!("verify/{sn}/pk=O"), verdict(false), move || verdict(sig.verify(&o_pk, msgr).is_ok())));
        qs.push(q(format!("verify/{sn}/sig=O"), verdict(false), move || verdict(o_sig.verify(&pk, msgr).is_ok())));
        // two-signer aggregate; the same with an identity-key pair added (pairing product unchanged)
        let Ok(sig2) = sk2.sign(lscheme(s1), &msg2) else { return };
        let Ok(agg) = AggregateSignature::<C>::from_signatures([sig, sig2]) else { return };
        let honest = vec![(pk, msg.clone()), (pk2, msg2.clone())];
        let mut with_o = honest.clone();
        with_o.push((o_pk, b"identity pair".to_vec()));
        let mut with_o_same = honest.clone();
        with_o_same.insert(0, (o_pk, msg2r.clone()));
        qs.push(q(format!("aggregate/{sn}/honest"), verdict(true), move || verdict(agg.verify(&honest).is_ok())));
        qs.push(q(format!("aggregate/{sn}/identity-pair-added"), verdict(false), move || verdict(agg.verify(&with_o).is_ok())));
        qs.push(q(format!("aggregate/{sn}/identity-pair-with-repeated-message"), verdict(false), move || verdict(agg.verify(&with_o_same).is_ok())));
        if s1 != Scheme::Aug {
            let Ok(sig2m) = sk2.sign(lscheme(s1), &msg) else { return };
            let Ok(ms) = MultiSignature::<C>::from_signatures([sig, sig2m]) else { return };
            let mpk = MultiPublicKey::<C>::from_public_keys([pk, pk2]);
            let o_ms = wrap_multi::<C>(s1, sig_id::<C>());
            let o_mpk = MultiPublicKey::<C>(pk_id::<C>());
            qs.push(q(format!("multi/{sn}/honest"), verdict(true), move || verdict(ms.verify(mpk, msgr).is_ok())));
            qs.push(q(format!("multi/{sn}/mpk=O,msig=O"), verdict(false), move || verdict(o_ms.verify(o_mpk, msgr).is_ok())));
            qs.push(q(format!("multi/{sn}/mpk=O"), verdict(false), move || verdict(ms.verify(o_mpk, msgr).is_ok())));
        }
    }
    let Ok(pop) = sk.proof_of_possession() else { return };
    let o_pop = ProofOfPossession::<C>(sig_id::<C>());
    qs.push(q("pop/honest".to_string(), verdict(true), move || verdict(pop.verify(pk).is_ok())));
    qs.push(q("pop/pk=O,proof=O".to_string(), verdict(false), move || verdict(o_pop.verify(o_pk).is_ok())));
    qs.push(q("pop/pk=O".to_string(), verdict(false), move || verdict(pop.verify(o_pk).is_ok())));
    let d = || json!({"suite":n,"sk":hex::encode(k.to_be_bytes()),"msg":crate::hx(&msg),"note":"verdicts answer [1]/[0]"});
    let mut cid = k.to_be_bytes().to_vec();
    cid.extend_from_slice(&msg);
    sandwiches(ctx, "C04", &format!("{n}/history"), "identity-next-to-honest", &cid, &d, &qs);
}
