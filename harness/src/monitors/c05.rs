//! C05 - schemes and purposes are domain-separated.

use crate::gen::{self, Content};
use crate::refimpl::{self, Scheme, RC, RG, SCHEMES};
use crate::suite::*;
use crate::{for_both, hx, Ctx};
use blsful::*;
use serde_json::json;

pub const RULE: &str = "(a) exhaustive over the 10 exposed tag constants (Basic::DST, MessageAugmentation::DST, Pop::SIG_DST, Pop::POP_DST, ElGamal::ENC_DST for both impls): pairwise distinct, and the 8 signature/PoP ones equal to the draft literals; (b) behavioural, per (key, message) x all 6 ordered pairs (s1,s2) of distinct schemes x 2 groups: signature of s1 re-wrapped as s2 must fail (library and reference); a signature of any scheme over the public-key bytes presented as a proof of possession must fail; a proof of possession presented as a signature of any scheme over the public-key bytes must fail; a proof of knowledge made for s1 re-labelled s2 must fail (library-made with a hash challenge, and hand-assembled for the edge challenges 0, 1, r-1); a signcryption ciphertext whose scheme field is re-labelled must be invalid and decrypt to nothing; a time-lock ciphertext must not open with the signature of another scheme, nor after being re-labelled. (c) history clusters (2 quick / 10 thorough per group): for one key, message and identifier every artefact of every scheme under every label (signatures incl. signature-over-pk vs proof of possession, signcryption is_valid / decrypt / decryption key, time-lock sealed x label x opening signature, proofs of knowledge; ~80 questions) is asked in ordered pairs (a,b) as the sequence a,b,b,a - every pair within a family, 300/1200 sampled pairs across families - and each answer must equal the answer the question has on its own (accepted exactly when all labels agree). Every negative case has its positive twin in the same run (un-relabelled artefact accepted); a case whose twin fails is counted as vacuous and does not count as coverage. Distinct by (suite, purpose, s1, s2, artefact bytes).";

pub fn run(ctx: &mut Ctx) {
    tags(ctx);
    for_both!(run_suite, ctx);
}

fn tags(ctx: &mut Ctx) {
    if !ctx.mine(0) {
        ctx.require("tags/distinct");
        ctx.require("tags/draft");
        return;
    }
    ctx.require("tags/distinct");
    ctx.require("tags/draft");
    type A = Bls12381G1Impl;
    type B = Bls12381G2Impl;
    let all: Vec<(&str, &[u8])> = vec![
        ("G1Impl::Basic::DST", <A as BlsSignatureBasic>::DST),
        ("G1Impl::MessageAugmentation::DST", <A as BlsSignatureMessageAugmentation>::DST),
        ("G1Impl::Pop::SIG_DST", <A as BlsSignaturePop>::SIG_DST),
        ("G1Impl::Pop::POP_DST", <A as BlsSignaturePop>::POP_DST),
        ("G1Impl::ElGamal::ENC_DST", <A as BlsElGamal>::ENC_DST),
        ("G2Impl::Basic::DST", <B as BlsSignatureBasic>::DST),
        ("G2Impl::MessageAugmentation::DST", <B as BlsSignatureMessageAugmentation>::DST),
        ("G2Impl::Pop::SIG_DST", <B as BlsSignaturePop>::SIG_DST),
        ("G2Impl::Pop::POP_DST", <B as BlsSignaturePop>::POP_DST),
        ("G2Impl::ElGamal::ENC_DST", <B as BlsElGamal>::ENC_DST),
    ];
    for i in 0..all.len() {
        for j in 0..i {
            ctx.expect(all[i].1 != all[j].1, &format!("C05/tags-equal/{}={}", all[j].0, all[i].0), || {
                json!({"what":"two domain-separation tags are equal","a":all[i].0,"b":all[j].0,"value":String::from_utf8_lossy(all[i].1)})
            });
            ctx.hit("tags/distinct", &[all[i].0.as_bytes(), all[j].0.as_bytes()]);
        }
    }
    let draft: Vec<(&str, &[u8], &[u8])> = vec![
        ("G1Impl::Basic::DST", all[0].1, <refimpl::RefG1 as RC>::DST_NUL),
        ("G1Impl::MessageAugmentation::DST", all[1].1, <refimpl::RefG1 as RC>::DST_AUG),
        ("G1Impl::Pop::SIG_DST", all[2].1, <refimpl::RefG1 as RC>::DST_POP_SIG),
        ("G1Impl::Pop::POP_DST", all[3].1, <refimpl::RefG1 as RC>::DST_POP_POP),
        ("G2Impl::Basic::DST", all[5].1, <refimpl::RefG2 as RC>::DST_NUL),
        ("G2Impl::MessageAugmentation::DST", all[6].1, <refimpl::RefG2 as RC>::DST_AUG),
        ("G2Impl::Pop::SIG_DST", all[7].1, <refimpl::RefG2 as RC>::DST_POP_SIG),
        ("G2Impl::Pop::POP_DST", all[8].1, <refimpl::RefG2 as RC>::DST_POP_POP),
    ];
    for (name, lib, lit) in draft {
        ctx.expect(lib == lit, &format!("C05/tag-not-draft/{name}"), || {
            json!({"what":"tag differs from the IETF draft literal","tag":name,"lib":String::from_utf8_lossy(lib),"draft":String::from_utf8_lossy(lit)})
        });
        ctx.hit("tags/draft", &[name.as_bytes(), lib]);
    }
    ctx.sample("tags/draft", || json!({"tags": all.iter().map(|(n,v)| json!({"name":n,"value":String::from_utf8_lossy(v)})).collect::<Vec<_>>()}));
    ctx.exhaustive.push("the 10 exposed tag constants: pairwise distinctness (45 pairs) and draft equality (8)".into());
}

fn relabel_pok<C: Suite>(p: &ProofOfKnowledge<C>, s: Scheme) -> ProofOfKnowledge<C> {
    let (u, v) = match *p {
        ProofOfKnowledge::Basic { u, v }
        | ProofOfKnowledge::MessageAugmentation { u, v }
        | ProofOfKnowledge::ProofOfPossession { u, v } => (u, v),
    };
    match s {
        Scheme::Basic => ProofOfKnowledge::Basic { u, v },
        Scheme::Aug => ProofOfKnowledge::MessageAugmentation { u, v },
        Scheme::Pop => ProofOfKnowledge::ProofOfPossession { u, v },
    }
}

fn run_suite<C: Suite>(ctx: &mut Ctx) {
    let base: u64 = if C::NAME == "G1Impl" { 1 << 20 } else { 1 << 32 };
    let n = C::NAME;
    let mut g = base;
    let tuples = ctx.tier.pick(3, 24);
    // history clusters (see history_cluster)
    ctx.require(&format!("{n}/history"));
    for i in 0..ctx.tier.pick(2, 10) {
        g += 1;
        if ctx.mine(g) {
            history_cluster::<C>(ctx, g, i);
        }
    }
    for s1 in SCHEMES {
        for s2 in s1.others() {
            for purpose in ["signature", "pok", "signcrypt", "timelock-foreign-sig", "timelock-relabel"] {
                ctx.require(&format!("{n}/{purpose}/{}->{}", s1.name(), s2.name()));
            }
        }
        ctx.require(&format!("{n}/sig-as-pop/{}", s1.name()));
        ctx.require(&format!("{n}/pop-as-sig/{}", s1.name()));
    }
    for t in 0..tuples {
        for s1 in SCHEMES {
            g += 1;
            if !ctx.mine(g) {
                continue;
            }
            let mut rng = ctx.rng(g);
            let k = gen::key_for(g, &mut rng); // every fourth case: an edge scalar
            let sk = sk_from_rs::<C>(&k);
            let pk = sk.public_key();
            let pkb = pk_bytes(&pk);
            let len = [0usize, 1, 32, 33, 200, 1000][t % 6];
            let msg = gen::message(len, Content::Random, &mut rng);
            let id = gen::message([8usize, 0, 32][t % 3], Content::Random, &mut rng);
            let sig = sk.sign(lscheme(s1), &msg).expect("sign");
            let spt = *sig.as_raw_value();
            let d = |what: &str, s2: Scheme| json!({"what":what,"suite":n,"from":s1.name(),"to":s2.name(),"sk":hex::encode(k.to_be_bytes()),"msg":hx(&msg)});

            // ---- signature relabelled
            let twin = sig.verify(&pk, &msg).is_ok();
            for s2 in s1.others() {
                let cell = format!("{n}/signature/{}->{}", s1.name(), s2.name());
                if !twin {
                    ctx.count("vacuous", 1);
                    continue;
                }
                let re = wrap_sig::<C>(s2, spt);
                let got = ctx.guard("Signature::verify", || d("relabelled signature", s2), || re.verify(&pk, &msg).is_ok());
                let r = refimpl::verify::<C::R>(s2, &pkb, &enc_pt(&spt), &msg);
                if r {
                    ctx.harness_error("C05: reference accepts a cross-scheme signature".into());
                }
                ctx.expect(got == Some(false), &format!("C05/cross-scheme-accepted/signature/{n}/{}->{}", s1.name(), s2.name()), || d("signature of one scheme verifies under another", s2));
                ctx.hit(&cell, &[&pkb, &enc_pt(&spt), &msg]);
                ctx.sample(&cell, || d("relabelled signature rejected", s2));
            }

            // ---- signature over pk bytes is not a PoP; PoP is not a signature over pk bytes
            {
                let sig_over_pk = sk.sign(lscheme(s1), &pkb).expect("sign");
                let as_pop = ProofOfPossession::<C>(*sig_over_pk.as_raw_value());
                let pop = sk.proof_of_possession().expect("pop");
                let twin = pop.verify(pk).is_ok() && sig_over_pk.verify(&pk, &pkb).is_ok();
                if twin {
                    let got = as_pop.verify(pk).is_ok();
                    ctx.expect(!got, &format!("C05/sig-accepted-as-pop/{n}/{}", s1.name()), || d("a signature over the public-key bytes verifies as a proof of possession", s1));
                    ctx.hit(&format!("{n}/sig-as-pop/{}", s1.name()), &[&pkb]);
                    let as_sig = wrap_sig::<C>(s1, pop.0);
                    let got = as_sig.verify(&pk, &pkb).is_ok();
                    ctx.expect(!got, &format!("C05/pop-accepted-as-sig/{n}/{}", s1.name()), || d("a proof of possession verifies as a signature over the public-key bytes", s1));
                    ctx.hit(&format!("{n}/pop-as-sig/{}", s1.name()), &[&pkb]);
                } else {
                    ctx.count("vacuous", 1);
                }
            }

            // ---- proof of knowledge relabelled (Aug via the caller-side workaround msg := pk||m)
            {
                let pmsg: Vec<u8> = if s1 == Scheme::Aug {
                    let mut m = pkb.clone();
                    m.extend_from_slice(&msg);
                    m
                } else {
                    msg.clone()
                };
                let y = ProofCommitmentChallenge::<C>::from_hash(&msg);
                let pok = ProofCommitment::<C>::generate(&pmsg, sig)
                    .and_then(|(c, x)| c.finalize(x, y, sig));
                match pok {
                    Ok(pok) if pok.verify(pk, &pmsg, y).is_ok() => {
                        for s2 in s1.others() {
                            let re = relabel_pok(&pok, s2);
                            // under the other label the verifier may also be handed the other message form
                            let mut accepted = re.verify(pk, &pmsg, y).is_ok() || re.verify(pk, &msg, y).is_ok();
                            let mut aug = pkb.clone();
                            aug.extend_from_slice(&msg);
                            accepted |= re.verify(pk, &aug, y).is_ok();
                            ctx.expect(!accepted, &format!("C05/cross-scheme-accepted/pok/{n}/{}->{}", s1.name(), s2.name()), || d("relabelled proof of knowledge verifies", s2));
                            ctx.hit(&format!("{n}/pok/{}->{}", s1.name(), s2.name()), &[&Vec::from(&pok)]);
                        }
                    }
                    _ => ctx.count("vacuous", 1),
                }
                // proofs assembled by hand (u = x*H(msg), v = -(x+y)*sig) for the edge challenges
                // 0, 1, r-1: with y = 0 the tag-dependent term y*H(msg) drops out of the verification
                // equation, so only the refusal of the zero challenge keeps the schemes apart
                {
                    use blsful::inner_types::Field;
                    let x = gen::random_scalar(&mut rng);
                    let h = <C::R as RC>::dst(s1);
                    let hm = RSig::<C>::hash(&pmsg, h);
                    let rsig = super::util::rsig_of::<C>(&sig);
                    for (yn, yv) in [("0", refimpl::RS::ZERO), ("1", refimpl::RS::ONE), ("r-1", -refimpl::RS::ONE)] {
                        let u = super::util::ls::<C>(hm.mul(&x));
                        let v = super::util::ls::<C>(rsig.mul(&(x + yv)).neg());
                        let ych = ProofCommitmentChallenge::<C>(sc_from_rs::<C>(&yv));
                        let _ = <Sc<C> as Field>::ZERO;
                        let own = match s1 {
                            Scheme::Basic => ProofOfKnowledge::<C>::Basic { u, v },
                            Scheme::Aug => ProofOfKnowledge::<C>::MessageAugmentation { u, v },
                            Scheme::Pop => ProofOfKnowledge::<C>::ProofOfPossession { u, v },
                        };
                        for s2 in s1.others() {
                            let re = relabel_pok(&own, s2);
                            let mut aug = pkb.clone();
                            aug.extend_from_slice(&msg);
                            let accepted = re.verify(pk, &pmsg, ych).is_ok() || re.verify(pk, &msg, ych).is_ok() || re.verify(pk, &aug, ych).is_ok();
                            ctx.expect(!accepted, &format!("C05/cross-scheme-accepted/pok/{n}/{}->{}", s1.name(), s2.name()), || { let mut x = d("a hand-assembled proof of knowledge verifies under another scheme label", s2); x["challenge"] = json!(yn); x });
                            ctx.hit(&format!("{n}/pok/{}->{}", s1.name(), s2.name()), &[yn.as_bytes(), &Vec::from(&own)]);
                        }
                    }
                }
            }

            // ---- signcryption relabelled
            {
                let ct = pk.sign_crypt(lscheme(s1), &msg);
                let twin = bool::from(ct.is_valid()) && ct_some(ct.decrypt(&sk)).as_deref() == Some(&msg[..]);
                if twin {
                    for s2 in s1.others() {
                        let mut re = ct.clone();
                        re.scheme = lscheme(s2);
                        let valid = bool::from(re.is_valid());
                        let mut dec = ct_some(re.decrypt(&sk));
                        // every decrypt path: with the hidden-key decryption key as well
                        if dec.is_none() {
                            dec = ct_some(sk.sign_decryption_key::<&[u8]>(&re).decrypt(&re));
                        }
                        if dec.is_none() {
                            dec = ct_some(SignCryptDecryptionKey::<C>(re.u * sk.0).decrypt(&re));
                        }
                        ctx.expect(!valid && dec.is_none(), &format!("C05/cross-scheme-accepted/signcrypt/{n}/{}->{}", s1.name(), s2.name()), || {
                            let mut x = d("relabelled signcryption ciphertext is valid or decrypts", s2);
                            x["is_valid"] = json!(valid);
                            x["decrypts"] = json!(dec.is_some());
                            x
                        });
                        ctx.hit(&format!("{n}/signcrypt/{}->{}", s1.name(), s2.name()), &[&Vec::from(&ct)]);
                    }
                } else {
                    ctx.count("vacuous", 1);
                }
            }

            // ---- time-lock
            {
                let ct = pk.encrypt_time_lock(lscheme(s1), &msg, &id).expect("time lock");
                let own = sk.sign(lscheme(s1), &id).expect("sign id");
                let twin = ct_some(ct.decrypt(&own)).as_deref() == Some(&msg[..]);
                if twin {
                    for s2 in s1.others() {
                        let foreign = sk.sign(lscheme(s2), &id).expect("sign id");
                        let got = ct_some(ct.decrypt(&foreign));
                        ctx.expect(got.is_none(), &format!("C05/cross-scheme-accepted/timelock-foreign-sig/{n}/{}->{}", s1.name(), s2.name()), || d("time-lock ciphertext opens with another scheme's signature", s2));
                        ctx.hit(&format!("{n}/timelock-foreign-sig/{}->{}", s1.name(), s2.name()), &[&Vec::from(&ct)]);
                        // relabel the ciphertext; try every signature the key can make over the id
                        let mut re = ct.clone();
                        re.scheme = lscheme(s2);
                        let foreign_opens = ct_some(re.decrypt(&foreign)).is_some();
                        ctx.expect(!foreign_opens, &format!("C05/cross-scheme-accepted/timelock-relabel/{n}/{}->{}", s1.name(), s2.name()), || d("relabelled time-lock ciphertext opens with the other scheme's honest signature", s2));
                        let orig_opens = ct_some(re.decrypt(&own)).is_some();
                        ctx.expect(!orig_opens, &format!("C05/scheme-label-ignored/timelock/{n}/{}->{}", s1.name(), s2.name()), || d("relabelled time-lock ciphertext still opens with the original scheme's signature", s2));
                        ctx.hit(&format!("{n}/timelock-relabel/{}->{}", s1.name(), s2.name()), &[&Vec::from(&ct)]);
                    }
                } else {
                    ctx.count("vacuous", 1);
                    ctx.count(&format!("vacuous/timelock/{}", s1.name()), 1);
                }
            }
        }
    }
}

/// One key, one message, one identifier; every artefact of every scheme presented under every
/// scheme label, asked in ordered pairs as a, b, b, a (all pairs inside a family, sampled pairs
/// across families). The answers on their own are what sections (b) establish: accepted exactly
/// when all labels agree.
fn history_cluster<C: Suite>(ctx: &mut Ctx, g: u64, i: usize) {
    use super::history::{family_pairs, q, sandwich_pairs, Q};
    let mut rng = ctx.rng(g);
    let n = C::NAME;
    let k = gen::random_scalar(&mut rng);
    let sk = sk_from_rs::<C>(&k);
    let pk = sk.public_key();
    let pkb = pk_bytes(&pk);
    let msg = gen::message([32usize, 0, 7, 48, 96, 200][i % 6], Content::Random, &mut rng);
    let id = gen::message([8usize, 32, 0][i % 3], Content::Random, &mut rng);
    type A = Option<Vec<u8>>;
    let yes: A = Some(vec![1]);
    let no: A = Some(vec![0]);
    let verdict = |b: bool| -> A { Some(vec![b as u8]) };
    let mut qs: Vec<Q<A>> = Vec::new();
    let (skr, pkr, msgr, pkbr, idr) = (&sk, &pk, &msg, &pkb, &id);
    // signatures: made under s1, presented under s2
    for s1 in SCHEMES {
        let Ok(sig) = sk.sign(lscheme(s1), &msg) else { return };
        for s2 in SCHEMES {
            let re = wrap_sig::<C>(s2, *sig.as_raw_value());
            qs.push(q(format!("signature/made-{}/presented-{}", s1.name(), s2.name()), if s1 == s2 { yes.clone() } else { no.clone() }, move || verdict(re.verify(pkr, msgr).is_ok())));
        }
        // a signature over the public-key bytes as a proof of possession, and the other way round
        let Ok(sop) = sk.sign(lscheme(s1), &pkb) else { return };
        let as_pop = ProofOfPossession::<C>(*sop.as_raw_value());
        qs.push(q(format!("signature/over-pk-{}-as-pop", s1.name()), no.clone(), move || verdict(as_pop.verify(*pkr).is_ok())));
        qs.push(q(format!("signature/over-pk-{}", s1.name()), yes.clone(), move || verdict(sop.verify(pkr, pkbr).is_ok())));
        let Ok(pop) = sk.proof_of_possession() else { return };
        let as_sig = wrap_sig::<C>(s1, pop.0);
        qs.push(q(format!("signature/pop-as-{}-over-pk", s1.name()), no.clone(), move || verdict(as_sig.verify(pkr, pkbr).is_ok())));
    }
    {
        let Ok(pop) = sk.proof_of_possession() else { return };
        qs.push(q("signature/pop".to_string(), yes.clone(), move || verdict(pop.verify(*pkr).is_ok())));
    }
    // signcryption: sealed under s1, label s2
    for s1 in SCHEMES {
        let ct = pk.sign_crypt(lscheme(s1), &msg);
        for s2 in SCHEMES {
            let mut re = ct.clone();
            re.scheme = lscheme(s2);
            let re2 = re.clone();
            let re3 = re.clone();
            qs.push(q(format!("signcrypt/sealed-{}/label-{}/is_valid", s1.name(), s2.name()), if s1 == s2 { yes.clone() } else { no.clone() }, move || verdict(bool::from(re.is_valid()))));
            qs.push(q(format!("signcrypt/sealed-{}/label-{}/decrypt", s1.name(), s2.name()), if s1 == s2 { Some(msg.clone()) } else { None }, move || ct_some(re2.decrypt(skr))));
            qs.push(q(format!("signcrypt/sealed-{}/label-{}/decryption-key", s1.name(), s2.name()), if s1 == s2 { Some(msg.clone()) } else { None }, move || ct_some(skr.sign_decryption_key::<&[u8]>(&re3).decrypt(&re3))));
        }
    }
    // time-lock: sealed under s1, label s2, opened with the signature of s3 over the identifier
    for s1 in SCHEMES {
        let Ok(ct) = pk.encrypt_time_lock(lscheme(s1), &msg, &id) else { return };
        for s2 in SCHEMES {
            for s3 in SCHEMES {
                let mut re = ct.clone();
                re.scheme = lscheme(s2);
                let Ok(sig) = sk.sign(lscheme(s3), idr) else { return };
                let all = s1 == s2 && s2 == s3;
                qs.push(q(format!("timelock/sealed-{}/label-{}/signature-{}", s1.name(), s2.name(), s3.name()), if all { Some(msg.clone()) } else { None }, move || ct_some(re.decrypt(&sig))));
            }
        }
    }
    // proofs of knowledge (Basic and ProofOfPossession; the MessageAugmentation variant is the
    // known finding of C10): made under s1, label s2
    let y = ProofCommitmentChallenge::<C>::from_hash(&msg);
    for s1 in [Scheme::Basic, Scheme::Pop] {
        let Ok(sig) = sk.sign(lscheme(s1), &msg) else { return };
        let Ok(pok) = ProofCommitment::<C>::generate(&msg, sig).and_then(|(c, x)| c.finalize(x, y, sig)) else { return };
        for s2 in SCHEMES {
            let re = relabel_pok(&pok, s2);
            qs.push(q(format!("pok/made-{}/label-{}", s1.name(), s2.name()), if s1 == s2 { yes.clone() } else { no.clone() }, move || verdict(re.verify(*pkr, msgr, y).is_ok())));
        }
    }
    let pairs = family_pairs(&qs, ctx.tier.pick(300, 1200), &mut rng);
    let d = || json!({"suite":n,"sk":hex::encode(k.to_be_bytes()),"msg":hx(&msg),"id":hx(&id),"note":"verdicts answer [1]/[0]; decrypt questions answer the plaintext or null"});
    let mut cid = k.to_be_bytes().to_vec();
    cid.extend_from_slice(&msg);
    sandwich_pairs(ctx, "C05", &format!("{n}/history"), "relabelling", &cid, &d, &qs, &pairs);
}
