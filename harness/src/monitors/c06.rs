//! C06 - aggregate verification: complete, exact, distinct messages enforced in Basic.

use super::util::*;
use crate::gen::{self, Content};
use crate::refimpl::{self, Scheme, RG, SCHEMES};
use crate::suite::*;
use crate::{for_both, Ctx, Tier};
use blsful::*;
use serde_json::json;

pub const RULE: &str = "n in {2,3,5,16,33,64} (quick) / every n in 2..=64 (thorough) x 3 schemes x 2 groups: n fresh keys, n distinct messages (lengths from the length classes and the lengths where pk||msg is 255 / 256 / 257 bytes), library aggregate (always through BOTH doors, AggregateSignature::from_signatures and TryFrom<&[Signature]>, which must agree; an acceptance through either counts). Checked: honest list in original order, reversed, rotated and 3 seeded shuffles must verify; single-position perturbations (message bit flip, key replaced, pair dropped, pair added - with a fresh key, and with the identity key (pairing product unchanged) carrying a fresh / the shared message at first, middle, last position -, two messages swapped between different signers) at positions first/middle/last (quick) or every position for n<=16 and 8 sampled positions above (thorough) must fail; duplicate-message multisets (two signers / all signers share one message) with the algebraically valid aggregate must be rejected by Basic and accepted by Aug and PoP; the same (key, message) pair occurring twice (signature counted twice) in three arrangements, and with one of the two copies of the key decoded from its bytes (another in-memory representation of the same point), must be accepted by Aug and PoP, and the aggregate lacking the second signature must be rejected; refusal matrix of from_signatures: 0 and 1 inputs, every mixed-scheme assignment for n<=3 at every position. Every decision is also taken by the reference CoreAggregateVerify (+ Basic's uniqueness rule) over the same bytes; expectation != reference is a harness error. History clusters (1 quick / 6 thorough per group): for three signers and every scheme the honest list (two orders), seven altered lists and the aggregate under each other label, asked in ordered pairs (a,b) as a,b,b,a with the reference's answers. Distinct by (suite, scheme, variant, list bytes, aggregate); non-trivial = all keys decode, aggregate not the identity, the multi-pairing decides.";

pub fn run(ctx: &mut Ctx) {
    for_both!(run_suite, ctx);
    flush_entry_point_disagreements(ctx, "C06");
}

fn sizes(t: Tier) -> Vec<usize> {
    match t {
        Tier::Quick => vec![2, 3, 5, 16, 33, 64],
        Tier::Thorough => (2..=64).collect(),
    }
}

fn run_suite<C: Suite>(ctx: &mut Ctx) {
    let base: u64 = if C::NAME == "G1Impl" { 0 } else { 1 << 32 };
    let n = C::NAME;
    let mut g = base;
    for scheme in SCHEMES {
        for kind in ["honest-order", "honest-permuted", "msg-flip", "key-replaced", "pair-dropped", "pair-added", "msgs-swapped", "dup-two", "dup-all", "same-pair-twice"] {
            ctx.require(&format!("{n}/{}/{kind}", scheme.name()));
        }
        for cnt in sizes(ctx.tier) {
            g += 1;
            if !ctx.mine(g) {
                continue;
            }
            one_list::<C>(ctx, g, scheme, cnt);
        }
    }
    // history clusters
    ctx.require(&format!("{n}/history"));
    for i in 0..ctx.tier.pick(1, 6) {
        g += 1;
        if ctx.mine(g) {
            history_cluster::<C>(ctx, g, i);
        }
    }
    // refusal matrix
    ctx.require(&format!("{n}/refusal/too-few"));
    ctx.require(&format!("{n}/refusal/mixed"));
    g += 1;
    if ctx.mine(g) {
        refusal::<C>(ctx, g);
    }
}

fn check<C: Suite>(ctx: &mut Ctx, cell: &str, scheme: Scheme, variant: &str, expect: bool, agg: &AggregateSignature<C>, data: &[(PublicKey<C>, Vec<u8>)]) {
    let pairs: Vec<(Vec<u8>, Vec<u8>)> = data.iter().map(|(p, m)| (pk_bytes(p), m.clone())).collect();
    let aggb = enc_pt(&agg_pt(agg));
    let r = refimpl::aggregate_verify::<C::R>(scheme, &pairs, &aggb);
    if r != expect {
        ctx.harness_error(format!("C06 expectation {expect} != reference {r} for {variant} ({}, {}, n={})", C::NAME, scheme.name(), data.len()));
        return;
    }
    let d = |got: bool| json!({"suite":C::NAME,"scheme":scheme.name(),"variant":variant,"n":data.len(),"expected_accept":expect,"library_accept":got,"reference_accept":r,
        "aggregate":hex::encode(&aggb),"pairs":pairs.iter().take(4).map(|(p,m)| json!({"pk":hex::encode(p),"msg":crate::hx(m)})).collect::<Vec<_>>()});
    let got = ctx.guard("AggregateSignature::verify", || d(false), || agg.verify(data).is_ok());
    let Some(got) = got else { return };
    let what = if expect { "valid-rejected" } else { "invalid-accepted" };
    let kind = cell.rsplit('/').next().unwrap_or("");
    ctx.expect(got == expect, &format!("C06/{what}/{}/{}/{kind}", C::NAME, scheme.name()), || d(got));
    let mut parts: Vec<&[u8]> = vec![variant.as_bytes(), &aggb];
    for (p, m) in &pairs {
        parts.push(p);
        parts.push(m);
    }
    ctx.hit(cell, &parts);
    ctx.sample(cell, || d(got));
}

fn one_list<C: Suite>(ctx: &mut Ctx, g: u64, scheme: Scheme, cnt: usize) {
    let mut rng = ctx.rng(g);
    let n = C::NAME;
    let sn = scheme.name();
    // the usual small classes plus the lengths (minus the 2-byte index appended below) at which
    // pk || msg is 255 / 256 / 257 bytes for the 96- and the 48-byte public key
    let lens: &[usize] = &[0, 1, 31, 32, 33, 128, 257, 157, 158, 159, 205, 206, 207];
    let keys: Vec<_> = (0..cnt).map(|_| gen::random_scalar(&mut rng)).collect();
    let sks: Vec<SecretKey<C>> = keys.iter().map(sk_from_rs::<C>).collect();
    let pks: Vec<PublicKey<C>> = sks.iter().map(|s| s.public_key()).collect();
    let msgs: Vec<Vec<u8>> = (0..cnt)
        .map(|i| {
            let mut m = gen::message(lens[i % lens.len()], Content::Random, &mut rng);
            // make sure messages are pairwise distinct even for length 0/1 classes
            m.extend_from_slice(&(i as u16).to_be_bytes());
            m
        })
        .collect();
    let sigs: Vec<Signature<C>> = sks.iter().zip(&msgs).map(|(s, m)| s.sign(lscheme(scheme), m).expect("sign")).collect();
    let agg = match agg_from::<C>(&sigs) {
        Ok(a) => a,
        Err(e) => {
            ctx.violation(&format!("C06/aggregation-refused/{n}/{sn}"), json!({"n":cnt,"err":e.to_string()}));
            return;
        }
    };
    let data: Vec<(PublicKey<C>, Vec<u8>)> = pks.iter().copied().zip(msgs.iter().cloned()).collect();
    check::<C>(ctx, &format!("{n}/{sn}/honest-order"), scheme, "original order", true, &agg, &data);
    // permutations
    let mut rev = data.clone();
    rev.reverse();
    check::<C>(ctx, &format!("{n}/{sn}/honest-permuted"), scheme, "reversed", true, &agg, &rev);
    let mut rot = data.clone();
    rot.rotate_left(1);
    check::<C>(ctx, &format!("{n}/{sn}/honest-permuted"), scheme, "rotated", true, &agg, &rot);
    for s in 0..3 {
        let mut sh = data.clone();
        gen::shuffle(&mut sh, &mut rng);
        check::<C>(ctx, &format!("{n}/{sn}/honest-permuted"), scheme, &format!("shuffle-{s}"), true, &agg, &sh);
    }
    // positions to perturb
    let positions: Vec<usize> = if ctx.tier == Tier::Quick {
        let mut p = vec![0, cnt / 2, cnt - 1];
        p.dedup();
        p
    } else if cnt <= 16 {
        (0..cnt).collect()
    } else {
        let mut p = vec![0, cnt - 1];
        while p.len() < 8 {
            let x = gen::below(&mut rng, cnt);
            if !p.contains(&x) {
                p.push(x);
            }
        }
        p
    };
    let extra_k = gen::random_scalar(&mut rng);
    let extra_pk = sk_from_rs::<C>(&extra_k).public_key();
    for &pos in &positions {
        // message bit flip
        let mut d = data.clone();
        let bit = gen::below(&mut rng, d[pos].1.len() * 8);
        d[pos].1 = gen::flip_bit(&d[pos].1, bit);
        check::<C>(ctx, &format!("{n}/{sn}/msg-flip"), scheme, &format!("msg-flip@{pos}"), false, &agg, &d);
        // key replaced
        let mut d = data.clone();
        d[pos].0 = extra_pk;
        check::<C>(ctx, &format!("{n}/{sn}/key-replaced"), scheme, &format!("key-replaced@{pos}"), false, &agg, &d);
        // pair dropped
        let mut d = data.clone();
        d.remove(pos);
        check::<C>(ctx, &format!("{n}/{sn}/pair-dropped"), scheme, &format!("pair-dropped@{pos}"), false, &agg, &d);
        // pair added
        let mut d = data.clone();
        d.insert(pos, (extra_pk, b"an added pair".to_vec()));
        check::<C>(ctx, &format!("{n}/{sn}/pair-added"), scheme, &format!("pair-added@{pos}"), false, &agg, &d);
        // two messages swapped between different signers
        let other = (pos + 1) % cnt;
        let mut d = data.clone();
        let t = d[pos].1.clone();
        d[pos].1 = d[other].1.clone();
        d[other].1 = t;
        check::<C>(ctx, &format!("{n}/{sn}/msgs-swapped"), scheme, &format!("msgs-swapped@{pos},{other}"), false, &agg, &d);
    }
    // duplicate-message multisets with the algebraically valid aggregate
    for (kind, share_all) in [("dup-two", false), ("dup-all", true)] {
        let mut m2 = msgs.clone();
        if share_all {
            for m in m2.iter_mut() {
                *m = msgs[0].clone();
            }
        } else {
            m2[cnt - 1] = msgs[0].clone();
        }
        let sigs2: Vec<Signature<C>> = sks.iter().zip(&m2).map(|(s, m)| s.sign(lscheme(scheme), m).expect("sign")).collect();
        let agg2 = agg_from::<C>(&sigs2).expect("aggregate");
        let d: Vec<(PublicKey<C>, Vec<u8>)> = pks.iter().copied().zip(m2.iter().cloned()).collect();
        let expect = scheme != Scheme::Basic;
        check::<C>(ctx, &format!("{n}/{sn}/{kind}"), scheme, kind, expect, &agg2, &d);
        // a pair ADDED to that list whose key is the identity and whose message repeats the shared
        // one: the pairing product is unchanged, only key validation can reject (all schemes)
        for pos in [0, cnt / 2, cnt] {
            let mut dx = d.clone();
            dx.insert(pos, (PublicKey::<C>(pk_id::<C>()), msgs[0].clone()));
            check::<C>(ctx, &format!("{n}/{sn}/pair-added"), scheme, &format!("{kind}/identity-key-pair-added@{pos}"), false, &agg2, &dx);
        }
    }
    // the same with the honest (distinct-message) list and a fresh message
    for pos in [0, cnt / 2, cnt] {
        let mut dx = data.clone();
        dx.insert(pos, (PublicKey::<C>(pk_id::<C>()), b"an added pair with the identity key".to_vec()));
        check::<C>(ctx, &format!("{n}/{sn}/pair-added"), scheme, &format!("identity-key-pair-added@{pos}"), false, &agg, &dx);
    }
    // the SAME signer signs the SAME message twice: the pair occurs twice in the list and its
    // signature twice in the aggregate (valid in Aug/PoP in every arrangement, rejected by Basic);
    // and the honest aggregate against a list with one pair duplicated (always invalid)
    {
        let mut sigs2 = sigs.clone();
        sigs2.push(sigs[0]);
        if let Ok(agg2) = agg_from::<C>(&sigs2) {
            let dup = data[0].clone();
            let mut arrangements: Vec<(&str, Vec<(PublicKey<C>, Vec<u8>)>)> = Vec::new();
            let mut d = data.clone();
            d.insert(1, dup.clone());
            arrangements.push(("same-pair-twice/adjacent-front", d));
            let mut d = data.clone();
            d.push(dup.clone());
            arrangements.push(("same-pair-twice/separated", d));
            let mut d = data.clone();
            d.rotate_left(1);
            d.push(dup.clone());
            arrangements.push(("same-pair-twice/adjacent-back", d));
            // the repeated key as a DIFFERENT in-memory representation of the same point (decoded
            // from its bytes: affine, Z = 1; the original came out of a scalar multiplication)
            if let Ok(redecoded) = PublicKey::<C>::try_from(pk_bytes(&dup.0).as_slice()) {
                let mut d = data.clone();
                d.push((redecoded, dup.1.clone()));
                arrangements.push(("same-pair-twice/second-copy-decoded-from-bytes", d));
                let mut d = data.clone();
                d[0].0 = redecoded;
                d.insert(1, dup.clone());
                arrangements.push(("same-pair-twice/first-copy-decoded-from-bytes", d));
            }
            for (vn, d) in arrangements {
                check::<C>(ctx, &format!("{n}/{sn}/same-pair-twice"), scheme, vn, scheme != Scheme::Basic, &agg2, &d);
                // the aggregate WITHOUT the second signature must not verify against the longer list
                check::<C>(ctx, &format!("{n}/{sn}/pair-added"), scheme, &format!("{vn}/aggregate-lacks-second-signature"), false, &agg, &d);
            }
        }
    }
    // the aggregate equals the plain sum (ties from_signatures to what verify checks)
    let rsum = refimpl::sum(sigs.iter().map(|s| rsig_of::<C>(s)));
    ctx.expect(enc_pt(&agg_pt(&agg)) == rsum.enc(), &format!("C06/aggregate-not-sum/{n}/{sn}"), || json!({"n":cnt}));
}

fn refusal<C: Suite>(ctx: &mut Ctx, g: u64) {
    let mut rng = ctx.rng(g);
    let n = C::NAME;
    let k = gen::random_scalar(&mut rng);
    let sk = sk_from_rs::<C>(&k);
    let mk = |s: Scheme, i: u8| sk.sign(lscheme(s), &[i, 1, 2, 3]).expect("sign");
    // too few
    let none: Vec<Signature<C>> = vec![];
    let r0 = ctx.guard("AggregateSignature::from_signatures", || json!({"n":0}), || agg_from::<C>(&none).is_ok());
    ctx.expect(r0 == Some(false), &format!("C06/accepted-too-few/{n}/0"), || json!({"what":"aggregation of zero signatures accepted"}));
    ctx.hit(&format!("{n}/refusal/too-few"), &[&[0]]);
    for s in SCHEMES {
        let one = vec![mk(s, 0)];
        let r1 = ctx.guard("AggregateSignature::from_signatures", || json!({"n":1}), || agg_from::<C>(&one).is_ok());
        ctx.expect(r1 == Some(false), &format!("C06/accepted-too-few/{n}/1"), || json!({"what":"aggregation of one signature accepted","scheme":s.name()}));
        ctx.hit(&format!("{n}/refusal/too-few"), &[&[1, s.wire()]]);
    }
    // every scheme assignment for n = 2, 3
    for cnt in [2usize, 3] {
        let total = 3usize.pow(cnt as u32);
        for code in 0..total {
            let mut c = code;
            let mut assign = Vec::new();
            for _ in 0..cnt {
                assign.push(SCHEMES[c % 3]);
                c /= 3;
            }
            let uniform = assign.iter().all(|s| *s == assign[0]);
            let sigs: Vec<Signature<C>> = assign.iter().enumerate().map(|(i, s)| mk(*s, i as u8)).collect();
            let r = ctx.guard("AggregateSignature::from_signatures", || json!({"assign":assign.iter().map(|s| s.name()).collect::<Vec<_>>()}), || agg_from::<C>(&sigs).is_ok());
            let Some(r) = r else { continue };
            let names: Vec<&str> = assign.iter().map(|s| s.name()).collect();
            if uniform {
                ctx.expect(r, &format!("C06/uniform-refused/{n}"), || json!({"assign":names}));
            } else {
                ctx.expect(!r, &format!("C06/mixed-accepted/{n}"), || json!({"what":"aggregation of mixed schemes accepted","assign":names}));
                ctx.hit(&format!("{n}/refusal/mixed"), &[&assign.iter().map(|s| s.wire()).collect::<Vec<u8>>()]);
            }
        }
    }
    ctx.exhaustive.push("from_signatures scheme assignments for n in {2,3} (3^n each) and sizes 0,1".into());
}

/// Three signers, one list per scheme: the honest list (two orders) and altered lists against the
/// aggregate, and the aggregate under every other scheme label, asked in ordered pairs as
/// a, b, b, a (all pairs within a scheme, sampled pairs across schemes). The answers are the
/// reference's (computed once per question).
fn history_cluster<C: Suite>(ctx: &mut Ctx, g: u64, i: usize) {
    use super::history::{family_pairs, q, sandwich_pairs, Q};
    let mut rng = ctx.rng(g);
    let n = C::NAME;
    let keys: Vec<_> = (0..3).map(|_| gen::random_scalar(&mut rng)).collect();
    let sks: Vec<SecretKey<C>> = keys.iter().map(sk_from_rs::<C>).collect();
    let pks: Vec<PublicKey<C>> = sks.iter().map(|s| s.public_key()).collect();
    let extra = sk_from_rs::<C>(&gen::random_scalar(&mut rng)).public_key();
    let msgs: Vec<Vec<u8>> = (0..3).map(|j| { let mut m = gen::message([8usize, 32, 0, 100][(i + j) % 4], Content::Random, &mut rng); m.push(j as u8); m }).collect();
    type A = Option<Vec<u8>>;
    let verdict = |b: bool| -> A { Some(vec![b as u8]) };
    let mut qs: Vec<Q<A>> = Vec::new();
    for s1 in SCHEMES {
        let Ok(sigs) = sks.iter().zip(&msgs).map(|(s, m)| s.sign(lscheme(s1), m)).collect::<Result<Vec<Signature<C>>, _>>() else { return };
        let Ok(agg) = agg_from::<C>(&sigs) else { return };
        let data: Vec<(PublicKey<C>, Vec<u8>)> = pks.iter().copied().zip(msgs.iter().cloned()).collect();
        let mut lists: Vec<(String, Vec<(PublicKey<C>, Vec<u8>)>)> = vec![("honest".into(), data.clone())];
        let mut d = data.clone(); d.reverse(); lists.push(("reversed".into(), d));
        let mut d = data.clone(); d[1].1 = gen::flip_bit(&d[1].1, 0); lists.push(("msg-flip".into(), d));
        let mut d = data.clone(); d[2].0 = extra; lists.push(("key-replaced".into(), d));
        let mut d = data.clone(); d.pop(); lists.push(("pair-dropped".into(), d));
        let mut d = data.clone(); d.push((extra, b"added".to_vec())); lists.push(("pair-added".into(), d));
        let mut d = data.clone(); d.push((PublicKey::<C>(pk_id::<C>()), msgs[0].clone())); lists.push(("identity-pair-added".into(), d));
        let mut d = data.clone(); let t = d[0].1.clone(); d[0].1 = d[1].1.clone(); d[1].1 = t; lists.push(("msgs-swapped".into(), d));
        let fam = format!("made-{}", s1.name());
        let aggb = enc_pt(&agg_pt(&agg));
        for (ln, list) in &lists {
            let pairs: Vec<(Vec<u8>, Vec<u8>)> = list.iter().map(|(p, m)| (pk_bytes(p), m.clone())).collect();
            let want = refimpl::aggregate_verify::<C::R>(s1, &pairs, &aggb);
            let list = list.clone();
            qs.push(q(format!("{fam}/{ln}"), verdict(want), move || verdict(agg.verify(&list).is_ok())));
        }
        for s2 in s1.others() {
            let re = wrap_agg::<C>(s2, agg_pt(&agg));
            let pairs: Vec<(Vec<u8>, Vec<u8>)> = data.iter().map(|(p, m)| (pk_bytes(p), m.clone())).collect();
            let want = refimpl::aggregate_verify::<C::R>(s2, &pairs, &aggb);
            let list = data.clone();
            qs.push(q(format!("{fam}/label-{}", s2.name()), verdict(want), move || verdict(re.verify(&list).is_ok())));
        }
    }
    let pairs = family_pairs(&qs, ctx.tier.pick(100, 400), &mut rng);
    let d = || json!({"suite":n,"keys":keys.iter().map(|k| hex::encode(k.to_be_bytes())).collect::<Vec<_>>(),"msgs":msgs.iter().map(|m| crate::hx(m)).collect::<Vec<_>>(),"note":"verdicts answer [1]/[0]; the answers on their own are the reference's"});
    let mut cid = keys[0].to_be_bytes().to_vec();
    cid.extend_from_slice(&msgs[0]);
    sandwich_pairs(ctx, "C06", &format!("{n}/history"), "lists", &cid, &d, &qs, &pairs);
}
