//! C07 - multi-signatures verify against exactly the set of signers.

use super::util::*;
use crate::gen::{self, Content};
use crate::refimpl::{self, Scheme, RG, SCHEMES};
use crate::suite::*;
use crate::{for_both, hx, Ctx, Tier};
use blsful::*;
use serde_json::json;

pub const RULE: &str = "n in {2,3,8,64} (quick) / every n in 2..=64 (thorough) x {ProofOfPossession, Basic} x 2 groups x messages from the length classes: n fresh keys sign one message; accumulation (always through BOTH doors, MultiSignature::from_signatures and TryFrom<&[Signature]>, which must agree; an acceptance through either counts) must equal the reference group sum (bytes), also when one part occurs twice (front / middle / end) and MultiPublicKey::from_public_keys the key sum; (msig, mpk, msg) must verify (library and reference); omission of each signer, addition of one, replacement of each (every position for n<=16, 8 sampled above) and another message must fail, each also decided by the reference under the summed key; the accumulated key built from the signer list in another order must still verify. Accumulation refusal: all 3^n scheme assignments for n in {2,3}, identity-valued parts of a refused scheme at every position of a 3-part list, MessageAugmentation at every position for n in {4,8}, sizes 0 and 1. History clusters (2 quick / 8 thorough per group): for three signers the multi-signature of each scheme against the exact signer set (two orders), a missing / added / replaced signer, another message and each other label, asked in ordered pairs (a,b) as a,b,b,a with the reference's answers. Distinct by (suite, scheme, variant, mpk, msig, msg); non-trivial = pairing equation decides (points decode, none is the identity).";

pub fn run(ctx: &mut Ctx) {
    for_both!(run_suite, ctx);
    flush_entry_point_disagreements(ctx, "C07");
}

fn sizes(t: Tier) -> Vec<usize> {
    match t {
        Tier::Quick => vec![2, 3, 8, 64],
        Tier::Thorough => (2..=64).collect(),
    }
}

fn run_suite<C: Suite>(ctx: &mut Ctx) {
    let base: u64 = if C::NAME == "G1Impl" { 0 } else { 1 << 32 };
    let n = C::NAME;
    let mut g = base;
    for scheme in [Scheme::Pop, Scheme::Basic] {
        for kind in ["honest", "honest-reordered", "omitted", "added", "replaced", "other-msg", "sum"] {
            ctx.require(&format!("{n}/{}/{kind}", scheme.name()));
        }
        for (i, cnt) in sizes(ctx.tier).into_iter().enumerate() {
            g += 1;
            if !ctx.mine(g) {
                continue;
            }
            one_set::<C>(ctx, g, scheme, cnt, i);
        }
    }
    ctx.require(&format!("{n}/refusal/too-few"));
    ctx.require(&format!("{n}/refusal/scheme-assignments"));
    ctx.require(&format!("{n}/refusal/aug-at-position"));
    g += 1;
    if ctx.mine(g) {
        refusal::<C>(ctx, g);
    }
    ctx.require(&format!("{n}/history"));
    for i in 0..ctx.tier.pick(2, 8) {
        g += 1;
        if ctx.mine(g) {
            history_cluster::<C>(ctx, g, i);
        }
    }
}

fn decide<C: Suite>(ctx: &mut Ctx, cell: &str, scheme: Scheme, variant: &str, expect: bool, ms: &MultiSignature<C>, keys: &[PublicKey<C>], msg: &[u8]) {
    // library: accumulate the listed keys and verify; reference: its OWN sum of the listed keys
    let mpk = MultiPublicKey::<C>::from_public_keys(keys);
    let rsum = refimpl::sum(keys.iter().map(|k| rpk_of::<C>(k)));
    let mpkb = rsum.enc();
    ctx.expect(enc_pt(&mpk.0) == mpkb, &format!("C07/mpk-not-sum/{}/{}", C::NAME, scheme.name()), || {
        json!({"what":"the accumulated public key is not the group sum of the listed keys","variant":variant,"keys":keys.len(),"lib":hex::encode(enc_pt(&mpk.0)),"ref":hex::encode(&mpkb)})
    });
    let msb = enc_pt(ms.as_raw_value());
    let r = refimpl::verify::<C::R>(scheme, &mpkb, &msb, msg);
    if r != expect {
        ctx.harness_error(format!("C07 expectation {expect} != reference {r} for {variant}"));
        return;
    }
    let d = |got: bool| json!({"suite":C::NAME,"scheme":scheme.name(),"variant":variant,"expected_accept":expect,"library_accept":got,
        "mpk":hex::encode(&mpkb),"msig":hex::encode(&msb),"msg":hx(msg)});
    let Some(got) = ctx.guard("MultiSignature::verify", || d(false), || ms.verify(mpk, msg).is_ok()) else { return };
    let what = if expect { "valid-rejected" } else { "invalid-accepted" };
    let kind = cell.rsplit('/').next().unwrap_or("");
    ctx.expect(got == expect, &format!("C07/{what}/{}/{}/{kind}", C::NAME, scheme.name()), || d(got));
    ctx.hit(cell, &[variant.as_bytes(), &mpkb, &msb, msg]);
    ctx.sample(cell, || d(got));
}

fn one_set<C: Suite>(ctx: &mut Ctx, g: u64, scheme: Scheme, cnt: usize, idx: usize) {
    let mut rng = ctx.rng(g);
    let n = C::NAME;
    let sn = scheme.name();
    let len = gen::LENGTHS_QUICK[idx % gen::LENGTHS_QUICK.len()];
    let msg = gen::message(len, Content::Random, &mut rng);
    let keys: Vec<_> = (0..cnt).map(|_| gen::random_scalar(&mut rng)).collect();
    let sks: Vec<SecretKey<C>> = keys.iter().map(sk_from_rs::<C>).collect();
    let pks: Vec<PublicKey<C>> = sks.iter().map(|s| s.public_key()).collect();
    let sigs: Vec<Signature<C>> = sks.iter().map(|s| s.sign(lscheme(scheme), &msg).expect("sign")).collect();
    let ms = match ctx.guard("MultiSignature::from_signatures", || json!({"n":cnt}), || multi_from::<C>(&sigs)) {
        Some(Ok(m)) => m,
        Some(Err(e)) => {
            ctx.violation(&format!("C07/accumulation-refused/{n}/{sn}"), json!({"n":cnt,"err":e.to_string()}));
            return;
        }
        None => return,
    };
    let mpk = MultiPublicKey::<C>::from_public_keys(&pks);
    // equals the plain group sums
    let rsum = refimpl::sum(keys.iter().map(|k| refimpl::sign::<C::R>(scheme, k, &msg)));
    let rpk = refimpl::sum(keys.iter().map(|k| refimpl::sk_to_pk::<C::R>(k)));
    ctx.expect(enc_pt(ms.as_raw_value()) == rsum.enc() && multi_scheme(&ms) == scheme, &format!("C07/msig-not-sum/{n}/{sn}"), || {
        json!({"what":"multi-signature is not the group sum of its parts","n":cnt,"lib":hex::encode(enc_pt(ms.as_raw_value())),"ref":hex::encode(rsum.enc())})
    });
    ctx.expect(enc_pt(&mpk.0) == rpk.enc(), &format!("C07/mpk-not-sum/{n}/{sn}"), || {
        json!({"what":"multi public key is not the group sum of the keys","n":cnt})
    });
    let via_from: MultiPublicKey<C> = MultiPublicKey::from(&pks[..]);
    ctx.expect(enc_pt(&via_from.0) == rpk.enc(), &format!("C07/mpk-from-slice-not-sum/{n}/{sn}"), || json!({"n":cnt}));
    ctx.hit(&format!("{n}/{sn}/sum"), &[&rsum.enc(), &rpk.enc()]);

    // a part that occurs twice (same signer contributes its signature twice), adjacent and after
    // at least one other part, and in first position: still the PLAIN group sum, verifying under
    // the key list with that key twice
    for (vn, at) in [("duplicate part at the end", cnt - 1), ("duplicate part at the front", 0usize), ("duplicate part in the middle", cnt / 2)] {
        let mut s2 = sigs.clone();
        s2.insert(at + 1, sigs[at]);
        let mut p2 = pks.clone();
        p2.insert(at + 1, pks[at]);
        if let Some(Ok(m2)) = ctx.guard("MultiSignature::from_signatures", || json!({"n":cnt + 1,"variant":vn}), || multi_from::<C>(&s2)) {
            let want = rsum.add(rsig_of::<C>(&sigs[at]));
            ctx.expect(enc_pt(m2.as_raw_value()) == want.enc(), &format!("C07/msig-not-sum/{n}/{sn}"), || {
                json!({"what":"multi-signature with a repeated part is not the plain group sum of its parts","n":cnt + 1,"variant":vn,"lib":hex::encode(enc_pt(m2.as_raw_value())),"ref":hex::encode(want.enc())})
            });
            decide::<C>(ctx, &format!("{n}/{sn}/honest"), scheme, vn, true, &m2, &p2, &msg);
            // and NOT under the key list without the repetition
            decide::<C>(ctx, &format!("{n}/{sn}/omitted"), scheme, &format!("{vn} / key list without the repetition"), false, &m2, &pks, &msg);
            ctx.hit(&format!("{n}/{sn}/sum"), &[vn.as_bytes(), &want.enc()]);
        }
    }
    decide::<C>(ctx, &format!("{n}/{sn}/honest"), scheme, "honest", true, &ms, &pks, &msg);
    let mut rp = pks.clone();
    rp.reverse();
    decide::<C>(ctx, &format!("{n}/{sn}/honest-reordered"), scheme, "keys reversed", true, &ms, &rp, &msg);
    let mut rs = sigs.clone();
    gen::shuffle(&mut rs, &mut rng);
    if let Ok(ms2) = multi_from::<C>(&rs) {
        decide::<C>(ctx, &format!("{n}/{sn}/honest-reordered"), scheme, "signatures shuffled", true, &ms2, &pks, &msg);
    }
    let positions: Vec<usize> = if cnt <= 16 {
        (0..cnt).collect()
    } else {
        let mut p = vec![0, cnt - 1];
        while p.len() < 8 {
            let x = gen::below(&mut rng, cnt);
            if !p.contains(&x) {
                p.push(x);
            }
        }
        p
    };
    let extra = sk_from_rs::<C>(&gen::random_scalar(&mut rng));
    for &pos in &positions {
        let mut p = pks.clone();
        p.remove(pos);
        decide::<C>(ctx, &format!("{n}/{sn}/omitted"), scheme, &format!("signer {pos} omitted from key"), false, &ms, &p, &msg);
        let mut p = pks.clone();
        p[pos] = extra.public_key();
        decide::<C>(ctx, &format!("{n}/{sn}/replaced"), scheme, &format!("signer {pos} replaced in key"), false, &ms, &p, &msg);
        // signature side: signer's part missing, key complete
        let mut s = sigs.clone();
        s.remove(pos);
        if s.len() >= 2 {
            if let Ok(m2) = multi_from::<C>(&s) {
                decide::<C>(ctx, &format!("{n}/{sn}/omitted"), scheme, &format!("signer {pos} omitted from signature"), false, &m2, &pks, &msg);
            }
        }
    }
    let mut p = pks.clone();
    p.push(extra.public_key());
    decide::<C>(ctx, &format!("{n}/{sn}/added"), scheme, "key added", false, &ms, &p, &msg);
    let mut s = sigs.clone();
    s.push(extra.sign(lscheme(scheme), &msg).expect("sign"));
    if let Ok(m2) = multi_from::<C>(&s) {
        decide::<C>(ctx, &format!("{n}/{sn}/added"), scheme, "signature added", false, &m2, &pks, &msg);
        // and the complete enlarged set is valid again
        decide::<C>(ctx, &format!("{n}/{sn}/honest"), scheme, "enlarged set", true, &m2, &p, &msg);
    }
    let mut m2 = msg.clone();
    m2.push(0);
    decide::<C>(ctx, &format!("{n}/{sn}/other-msg"), scheme, "message extended", false, &ms, &pks, &m2);
    if !msg.is_empty() {
        let b = gen::below(&mut rng, msg.len() * 8);
        decide::<C>(ctx, &format!("{n}/{sn}/other-msg"), scheme, "message bit flipped", false, &ms, &pks, &gen::flip_bit(&msg, b));
    }
}

fn refusal<C: Suite>(ctx: &mut Ctx, g: u64) {
    let mut rng = ctx.rng(g);
    let n = C::NAME;
    let sk = sk_from_rs::<C>(&gen::random_scalar(&mut rng));
    let msg = b"one message".to_vec();
    let mk = |s: Scheme| sk.sign(lscheme(s), &msg).expect("sign");
    let none: Vec<Signature<C>> = vec![];
    let r = ctx.guard("MultiSignature::from_signatures", || json!({"n":0}), || multi_from::<C>(&none).is_ok());
    ctx.expect(r == Some(false), &format!("C07/accepted-too-few/{n}/0"), || json!({"what":"accumulation of zero signatures accepted"}));
    ctx.hit(&format!("{n}/refusal/too-few"), &[&[0]]);
    for s in SCHEMES {
        let one = vec![mk(s)];
        let r = ctx.guard("MultiSignature::from_signatures", || json!({"n":1}), || multi_from::<C>(&one).is_ok());
        ctx.expect(r == Some(false), &format!("C07/accepted-too-few/{n}/1"), || json!({"what":"accumulation of one signature accepted","scheme":s.name()}));
        ctx.hit(&format!("{n}/refusal/too-few"), &[&[1, s.wire()]]);
    }
    for cnt in [2usize, 3] {
        for code in 0..3usize.pow(cnt as u32) {
            let mut c = code;
            let mut assign = Vec::new();
            for _ in 0..cnt {
                assign.push(SCHEMES[c % 3]);
                c /= 3;
            }
            let ok_expected = assign.iter().all(|s| *s == assign[0]) && assign[0] != Scheme::Aug;
            let sigs: Vec<Signature<C>> = assign.iter().map(|s| mk(*s)).collect();
            let names: Vec<&str> = assign.iter().map(|s| s.name()).collect();
            let Some(r) = ctx.guard("MultiSignature::from_signatures", || json!({"assign":names}), || multi_from::<C>(&sigs).is_ok()) else { continue };
            if ok_expected {
                ctx.expect(r, &format!("C07/uniform-refused/{n}"), || json!({"assign":names}));
            } else {
                ctx.expect(!r, &format!("C07/bad-assignment-accepted/{n}"), || json!({"what":"accumulation accepted message-augmentation or mixed schemes","assign":names}));
            }
            ctx.hit(&format!("{n}/refusal/scheme-assignments"), &[&assign.iter().map(|s| s.wire()).collect::<Vec<u8>>()]);
        }
    }
    // MessageAugmentation at every position among otherwise uniform inputs, and all-Aug
    for cnt in [4usize, 8] {
        for other in [Scheme::Pop, Scheme::Basic, Scheme::Aug] {
            for pos in 0..cnt {
                let sigs: Vec<Signature<C>> = (0..cnt).map(|i| if i == pos { mk(Scheme::Aug) } else { mk(other) }).collect();
                let Some(r) = ctx.guard("MultiSignature::from_signatures", || json!({"n":cnt,"aug_at":pos}), || multi_from::<C>(&sigs).is_ok()) else { continue };
                ctx.expect(!r, &format!("C07/aug-accepted/{n}"), || json!({"what":"accumulation accepted a message-augmentation signature","n":cnt,"aug_at":pos,"others":other.name()}));
                ctx.hit(&format!("{n}/refusal/aug-at-position"), &[&[cnt as u8, pos as u8, other.wire()]]);
            }
        }
    }
    // parts whose VALUE is the identity point (they add nothing to the sum) but whose scheme the
    // accumulation must still refuse: another scheme than the first part's, or message
    // augmentation throughout - at every position of a 3-part list
    for first in [Scheme::Pop, Scheme::Basic, Scheme::Aug] {
        for odd in SCHEMES {
            if odd == first && first != Scheme::Aug {
                continue;
            }
            for pos in 0..3usize {
                let sigs: Vec<Signature<C>> = (0..3).map(|i| if i == pos { wrap_sig::<C>(odd, sig_id::<C>()) } else { mk(first) }).collect();
                let Some(r) = ctx.guard("MultiSignature::from_signatures", || json!({"first":first.name(),"identity_part":odd.name(),"at":pos}), || multi_from::<C>(&sigs).is_ok()) else { continue };
                ctx.expect(!r, &format!("C07/bad-assignment-accepted/{n}"), || json!({"what":"accumulation accepted an identity-valued part of a scheme it must refuse","others":first.name(),"identity_part_scheme":odd.name(),"position":pos}));
                ctx.hit(&format!("{n}/refusal/scheme-assignments"), &[b"identity-part", &[first.wire(), odd.wire(), pos as u8]]);
            }
        }
    }
    ctx.exhaustive.push("MultiSignature::from_signatures scheme assignments for n in {2,3} (3^n each), sizes 0,1".into());
}

/// Three signers over one message: the multi-signature of Basic and of ProofOfPossession against
/// the accumulated key of exactly the signers (two orders), with one missing / added / replaced,
/// another message, and under every other label - asked in ordered pairs as a, b, b, a with the
/// reference's answers (under its own sum of the listed keys).
fn history_cluster<C: Suite>(ctx: &mut Ctx, g: u64, i: usize) {
    use super::history::{family_pairs, q, sandwich_pairs, Q};
    let mut rng = ctx.rng(g);
    let n = C::NAME;
    let keys: Vec<_> = (0..3).map(|_| gen::random_scalar(&mut rng)).collect();
    let sks: Vec<SecretKey<C>> = keys.iter().map(sk_from_rs::<C>).collect();
    let pks: Vec<PublicKey<C>> = sks.iter().map(|s| s.public_key()).collect();
    let extra = sk_from_rs::<C>(&gen::random_scalar(&mut rng)).public_key();
    let msg = gen::message([32usize, 0, 7, 100][i % 4], Content::Random, &mut rng);
    let mut msg2 = msg.clone();
    msg2.push(1);
    type A = Option<Vec<u8>>;
    let verdict = |b: bool| -> A { Some(vec![b as u8]) };
    let mut qs: Vec<Q<A>> = Vec::new();
    for s1 in [Scheme::Pop, Scheme::Basic] {
        let Ok(sigs) = sks.iter().map(|s| s.sign(lscheme(s1), &msg)).collect::<Result<Vec<Signature<C>>, _>>() else { return };
        let Ok(ms) = multi_from::<C>(&sigs) else { return };
        let msb = enc_pt(ms.as_raw_value());
        let mut lists: Vec<(String, Vec<PublicKey<C>>, Vec<u8>)> = vec![("honest".into(), pks.clone(), msg.clone())];
        let mut l = pks.clone(); l.reverse(); lists.push(("reversed".into(), l, msg.clone()));
        lists.push(("signer-missing".into(), pks[..2].to_vec(), msg.clone()));
        let mut l = pks.clone(); l.push(extra); lists.push(("signer-added".into(), l, msg.clone()));
        let mut l = pks.clone(); l[1] = extra; lists.push(("signer-replaced".into(), l, msg.clone()));
        lists.push(("other-message".into(), pks.clone(), msg2.clone()));
        let fam = format!("made-{}", s1.name());
        for (ln, l, m) in lists {
            let rsum = refimpl::sum(l.iter().map(|k| rpk_of::<C>(k)));
            let want = refimpl::verify::<C::R>(s1, &rsum.enc(), &msb, &m);
            qs.push(q(format!("{fam}/{ln}"), verdict(want), move || verdict(ms.verify(MultiPublicKey::<C>::from_public_keys(&l), &m).is_ok())));
        }
        for s2 in s1.others() {
            let re = wrap_multi::<C>(s2, *ms.as_raw_value());
            let rsum = refimpl::sum(pks.iter().map(|k| rpk_of::<C>(k)));
            let want = refimpl::verify::<C::R>(s2, &rsum.enc(), &msb, &msg);
            let (l, m) = (pks.clone(), msg.clone());
            qs.push(q(format!("{fam}/label-{}", s2.name()), verdict(want), move || verdict(re.verify(MultiPublicKey::<C>::from_public_keys(&l), &m).is_ok())));
        }
    }
    let pairs = family_pairs(&qs, ctx.tier.pick(60, 200), &mut rng);
    let d = || json!({"suite":n,"keys":keys.iter().map(|k| hex::encode(k.to_be_bytes())).collect::<Vec<_>>(),"msg":crate::hx(&msg),"note":"verdicts answer [1]/[0]; the answers on their own are the reference's"});
    let mut cid = keys[0].to_be_bytes().to_vec();
    cid.extend_from_slice(&msg);
    sandwich_pairs(ctx, "C07", &format!("{n}/history"), "signer-sets", &cid, &d, &qs, &pairs);
}
