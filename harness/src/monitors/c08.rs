//! C08 - threshold shares recombine to exactly the whole-key results.

use super::util::*;
use crate::gen::{self, Content};
use crate::refimpl::{self, Scheme, RG, RS};
use crate::suite::*;
use crate::{for_both, Ctx, Tier};
use blsful::vsss_rs::Share;
use blsful::*;
use serde_json::json;

pub const RULE: &str = "EXHAUSTIVE for n<=5 (quick) / n<=7 (thorough): every (t,n) with 2<=t<=n, every subset of every size of the n shares, in sorted, reversed (descending identifiers) and one seeded shuffled order. Sampled above: corners (2,255),(128,255),(254,255),(255,255) [thorough], (2,20),(10,20),(20,20),(3,64) and seeded random pairs, subsets of size t-1,t,t+1,n (for (2,255) also the 10 highest identifiers, the 21 lowest and 9 around 128). Per split (keys from E and random; split and split_with_rng): SecretKey::combine, PublicKey::from_shares, Signature::from_shares for Basic and PoP, both groups, messages from the length classes. >=t distinct shares must give the whole key / public key / byte-identical whole-key signature; <t shares must not (sizes 0,1 must be Err); each partial signature must verify against its own public-key share and against no other participant's (full i x j matrix for n<=7); the reference's own Lagrange interpolation over the share BYTES must give the same scalar / points (independent of vsss-rs). Error catalogue: [], [s], [s,s], [s,s'] with equal identifier, identifier forced to 0, Basic+PoP mixed, MessageAugmentation share signing, (t,n) in {(0,0),(1,1),(1,3),(3,2),(2,256),(256,256),(2,300),(0,5)}. History clusters (2 quick / 8 thorough per group): for one 2-of-3 split every participant's partial signature under Basic and ProofOfPossession (answer: the reference's signature with the share scalar), every partial signature against every public-key share, and the recombination of key, public key and signature, asked in every ordered pair (a,b) as a,b,b,a. Distinct by (suite,t,n,subset,order,op).";

pub fn run(ctx: &mut Ctx) {
    for_both!(run_suite, ctx);
}

fn run_suite<C: Suite>(ctx: &mut Ctx) {
    let base: u64 = if C::NAME == "G1Impl" { 0 } else { 1 << 32 };
    let n = C::NAME;
    let mut g = base;
    let nmax = ctx.tier.pick(5usize, 7);
    for c in ["combine/>=t", "combine/<t", "pk/>=t", "pk/<t", "sig/Basic/>=t", "sig/Basic/<t", "sig/ProofOfPossession/>=t", "sig/ProofOfPossession/<t", "partial/own", "partial/other", "errors/sets", "errors/params", "reference-lagrange"] {
        ctx.require(&format!("{n}/{c}"));
    }
    let mut idx = 0usize;
    for nn in 2..=nmax {
        for t in 2..=nn {
            g += 1;
            idx += 1;
            if !ctx.mine(g) {
                continue;
            }
            one_split::<C>(ctx, g, t, nn, true, idx);
        }
    }
    let mut sampled: Vec<(usize, usize)> = vec![(2, 20), (10, 20), (20, 20), (3, 64), (2, 9), (8, 8)];
    if ctx.tier == Tier::Thorough {
        sampled.extend([(2, 255), (128, 255), (254, 255), (255, 255), (100, 200), (64, 64)]);
        let mut r = ctx.rng_l(base, "pairs");
        for _ in 0..20 {
            let nn = 8 + gen::below(&mut r, 248);
            let t = 2 + gen::below(&mut r, nn - 1);
            sampled.push((t, nn));
        }
    } else {
        sampled.push((2, 255));
        sampled.push((255, 255));
    }
    for (t, nn) in sampled {
        g += 1;
        idx += 1;
        if !ctx.mine(g) {
            continue;
        }
        one_split::<C>(ctx, g, t, nn, false, idx);
    }
    g += 1;
    if ctx.mine(g) {
        errors::<C>(ctx, g);
    }
    ctx.require(&format!("{n}/history"));
    for i in 0..ctx.tier.pick(2, 8) {
        g += 1;
        if ctx.mine(g) {
            history_cluster::<C>(ctx, g, i);
        }
    }
    let s = format!("every (t,n) with n<={nmax} and every subset of every size (sorted + one shuffled order)");
    if !ctx.exhaustive.contains(&s) {
        ctx.exhaustive.push(s);
    }
}

fn one_split<C: Suite>(ctx: &mut Ctx, g: u64, t: usize, nn: usize, exhaustive: bool, idx: usize) {
    let mut rng = ctx.rng(g);
    let n = C::NAME;
    let edges = gen::edge_scalars(&mut rng);
    let (kname, k) = edges[idx % edges.len()];
    let sk = sk_from_rs::<C>(&k);
    let pk = sk.public_key();
    let kb = k.to_be_bytes();
    let d0 = || json!({"suite":n,"t":t,"n":nn,"sk":hex::encode(kb),"sk_class":kname});
    let shares = if idx % 3 == 0 {
        ctx.guard("SecretKey::split", d0, || sk.split(t, nn))
    } else {
        let r2 = ctx.rng_l(g, "split");
        ctx.guard("SecretKey::split_with_rng", d0, || sk.split_with_rng(t, nn, r2))
    };
    let shares = match shares {
        Some(Ok(s)) => s,
        Some(Err(e)) => {
            ctx.violation(&format!("C08/split-failed/{n}"), json!({"t":t,"n":nn,"err":e.to_string()}));
            return;
        }
        None => return,
    };
    if !ctx.expect(shares.len() == nn, &format!("C08/share-count/{n}"), || json!({"t":t,"n":nn,"got":shares.len()})) {
        return;
    }
    // identifiers must be 1..=n, distinct, non-zero
    let ids: Vec<u8> = shares.iter().map(|s| s.0.identifier()).collect();
    let mut sorted = ids.clone();
    sorted.sort_unstable();
    sorted.dedup();
    ctx.expect(sorted.len() == nn && !ids.contains(&0), &format!("C08/identifiers/{n}"), || json!({"ids":ids}));
    for id in &ids {
        ctx.count(&format!("share_id_seen/{id}"), 1);
    }
    let len = gen::LENGTHS_SMALL[idx % gen::LENGTHS_SMALL.len()];
    let msg = gen::message(len, Content::Random, &mut rng);
    let Ok(pkshares) = shares.iter().map(|s| s.public_key()).collect::<Result<Vec<PublicKeyShare<C>>, _>>() else {
        ctx.violation(&format!("C08/share-operation-failed/{n}/public_key"), json!({"what":"a secret-key share yields no public-key share","t":t,"n":nn}));
        return;
    };
    let schemes = [Scheme::Basic, Scheme::Pop];
    let whole: Vec<Vec<u8>> = schemes.iter().map(|s| Vec::from(&sk.sign(lscheme(*s), &msg).expect("sign"))).collect();
    let mut partials: Vec<Vec<SignatureShare<C>>> = Vec::new();
    for s in schemes.iter() {
        match shares.iter().map(|sh| sh.sign(lscheme(*s), &msg)).collect::<Result<Vec<SignatureShare<C>>, _>>() {
            Ok(v) => partials.push(v),
            Err(e) => {
                ctx.violation(&format!("C08/share-operation-failed/{n}/partial-sign/{}", s.name()), json!({"what":"a secret-key share cannot sign","t":t,"n":nn,"error":e.to_string()}));
                return;
            }
        }
    }

    // reference Lagrange over the share bytes: first t shares
    {
        let pts: Vec<(u8, RS)> = shares.iter().take(t).map(|s| sk_share_parts::<C>(s)).collect();
        let r = refimpl::interpolate_scalars(&pts);
        ctx.expect(r.map(|x| x.to_be_bytes()) == Some(kb), &format!("C08/reference-lagrange/sk/{n}"), || {
            let mut x = d0();
            x["what"] = json!("reference interpolation of the first t secret shares does not give the key");
            x
        });
        let pp: Option<Vec<(u8, RPk<C>)>> = pkshares.iter().take(t).map(|s| { let (i, b) = pk_share_parts::<C>(s); RPk::<C>::dec(&b).map(|p| (i, p)) }).collect();
        let rp = pp.and_then(|v| refimpl::interpolate_points(&v));
        ctx.expect(rp.map(|p| p.enc()) == Some(pk_bytes(&pk)), &format!("C08/reference-lagrange/pk/{n}"), || d0());
        for (si, s) in schemes.iter().enumerate() {
            let sp: Option<Vec<(u8, RSig<C>)>> = partials[si].iter().take(t).map(|x| { let (i, b) = sig_share_parts::<C>(x); RSig::<C>::dec(&b).map(|p| (i, p)) }).collect();
            let rs = sp.and_then(|v| refimpl::interpolate_points(&v));
            ctx.expect(rs.map(|p| p.enc()).as_deref() == Some(&whole[si][1..]), &format!("C08/reference-lagrange/sig/{n}/{}", s.name()), || d0());
        }
        // a share's value is the polynomial at its identifier: predict share t+1 from the first t
        if nn > t {
            let (id_next, v_next) = sk_share_parts::<C>(&shares[t]);
            let pred = refimpl::interpolate_scalars_at(&pts, &RS::from(id_next as u64));
            ctx.expect(pred == Some(v_next), &format!("C08/degree/{n}"), || {
                let mut x = d0();
                x["what"] = json!("share t+1 does not lie on the degree t-1 polynomial through the first t shares");
                x
            });
        }
        ctx.hit(&format!("{n}/reference-lagrange"), &[&kb, &[t as u8, nn as u8]]);
    }

    // partial signature matrix
    {
        let m = if nn <= 7 { nn } else { 4 };
        for (si, s) in schemes.iter().enumerate() {
            for i in 0..m {
                for j in 0..m {
                    let got = ctx.guard("PublicKeyShare::verify", d0, || pkshares[j].verify(&partials[si][i], &msg).is_ok());
                    let Some(got) = got else { continue };
                    // also the mirrored entry point
                    let got2 = partials[si][i].verify(&pkshares[j], &msg).is_ok();
                    if i == j {
                        ctx.expect(got && got2, &format!("C08/partial-own-rejected/{n}/{}", s.name()), || { let mut x = d0(); x["share"] = json!(i); x });
                        ctx.hit(&format!("{n}/partial/own"), &[&kb, &[t as u8, nn as u8, i as u8, si as u8]]);
                    } else {
                        ctx.expect(!got && !got2, &format!("C08/partial-foreign-accepted/{n}/{}", s.name()), || { let mut x = d0(); x["sig_share"] = json!(i); x["pk_share"] = json!(j); x });
                        ctx.hit(&format!("{n}/partial/other"), &[&kb, &[t as u8, nn as u8, i as u8, j as u8, si as u8]]);
                    }
                }
            }
        }
    }

    // subsets
    let subsets: Vec<Vec<usize>> = if exhaustive {
        gen::subsets(nn).collect()
    } else {
        let mut v: Vec<Vec<usize>> = Vec::new();
        for size in [t.saturating_sub(1), t, (t + 1).min(nn), nn] {
            let mut all: Vec<usize> = (0..nn).collect();
            gen::shuffle(&mut all, &mut rng);
            let mut s: Vec<usize> = all.into_iter().take(size).collect();
            s.sort_unstable();
            if !v.contains(&s) {
                v.push(s);
            }
        }
        v.push(vec![]);
        v.push(vec![0]);
        // many shares with large identifiers (products of identifiers beyond 64 bits), many small
        // ones, a run around 128
        if nn >= 255 && t <= 9 {
            v.push((nn - 10..nn).collect());
            v.push((0..21).collect());
            v.push((124..133).collect());
        }
        v
    };
    for sub in subsets {
        let mut orders: Vec<Vec<usize>> = vec![sub.clone()];
        if sub.len() >= 2 {
            let mut sh = sub.clone();
            gen::shuffle(&mut sh, &mut rng);
            if sh != sub {
                orders.push(sh);
            }
            let mut rev = sub.clone();
            rev.reverse();
            if !orders.contains(&rev) {
                orders.push(rev); // descending identifiers
            }
        }
        for ord in orders {
            let enough = ord.len() >= t;
            let cls = if enough { ">=t" } else { "<t" };
            let fpd: Vec<u8> = ord.iter().map(|i| *i as u8).collect();
            let dd = || { let mut x = d0(); x["subset"] = json!(ord); x };
            // secret key
            let sel: Vec<SecretKeyShare<C>> = ord.iter().map(|i| shares[*i].clone()).collect();
            if let Some(r) = ctx.guard("SecretKey::combine", dd, || SecretKey::<C>::combine(&sel)) {
                check_combo(ctx, n, "combine", &format!("{n}/combine/{cls}"), enough, ord.len(), r.ok().map(|k| k.to_be_bytes().to_vec()), &kb, &fpd, t, nn, dd);
            }
            let sel: Vec<PublicKeyShare<C>> = ord.iter().map(|i| pkshares[*i]).collect();
            if let Some(r) = ctx.guard("PublicKey::from_shares", dd, || PublicKey::<C>::from_shares(&sel)) {
                check_combo(ctx, n, "pk", &format!("{n}/pk/{cls}"), enough, ord.len(), r.ok().map(|p| pk_bytes(&p)), &pk_bytes(&pk), &fpd, t, nn, dd);
            }
            for (si, s) in schemes.iter().enumerate() {
                let sel: Vec<SignatureShare<C>> = ord.iter().map(|i| partials[si][*i]).collect();
                if let Some(r) = ctx.guard("Signature::from_shares", dd, || Signature::<C>::from_shares(&sel)) {
                    check_combo(ctx, n, &format!("sig/{}", s.name()), &format!("{n}/sig/{}/{cls}", s.name()), enough, ord.len(), r.ok().map(|x| Vec::from(&x)), &whole[si], &fpd, t, nn, dd);
                }
            }
        }
    }
    ctx.sample(&format!("{n}/combine/>=t"), || json!({"suite":n,"t":t,"n":nn,"sk_class":kname,"exhaustive_subsets":exhaustive,"ids":ids.iter().take(8).collect::<Vec<_>>()}));
}

#[allow(clippy::too_many_arguments)]
fn check_combo(ctx: &mut Ctx, n: &str, op: &str, cell: &str, enough: bool, size: usize, got: Option<Vec<u8>>, want: &[u8], fpd: &[u8], t: usize, nn: usize, dd: impl Fn() -> serde_json::Value) {
    if enough {
        ctx.expect(got.as_deref() == Some(want), &format!("C08/recombination-wrong/{n}/{op}"), || {
            let mut x = dd();
            x["what"] = json!("t or more distinct shares do not recombine to the whole-key result");
            x["got"] = json!(got.as_ref().map(hex::encode));
            x["want"] = json!(hex::encode(want));
            x
        });
    } else {
        ctx.expect(got.as_deref() != Some(want), &format!("C08/too-few-recombine/{n}/{op}"), || {
            let mut x = dd();
            x["what"] = json!("fewer than t shares yield the whole-key result");
            x
        });
        if size < 2 {
            ctx.expect(got.is_none(), &format!("C08/degenerate-set-accepted/{n}/{op}/size={size}"), || {
                let mut x = dd();
                x["what"] = json!("empty or single share set not reported as an error");
                x
            });
        }
    }
    ctx.hit(cell, &[op.as_bytes(), &[t as u8, nn as u8], fpd, want]);
}

fn errors<C: Suite>(ctx: &mut Ctx, g: u64) {
    let mut rng = ctx.rng(g);
    let n = C::NAME;
    let k = gen::random_scalar(&mut rng);
    let sk = sk_from_rs::<C>(&k);
    let msg = b"error catalogue".to_vec();
    // parameters outside the range
    for (t, nn) in [(0usize, 0usize), (1, 1), (1, 3), (3, 2), (2, 256), (256, 256), (2, 300), (0, 5), (300, 300)] {
        let r = ctx.guard("SecretKey::split", || json!({"t":t,"n":nn}), || sk.split(t, nn).is_ok());
        ctx.expect(r == Some(false), &format!("C08/bad-params-accepted/{n}/t={t},n={nn}"), || json!({"what":"split accepted parameters outside 2<=t<=n<=255","t":t,"n":nn}));
        ctx.hit(&format!("{n}/errors/params"), &[&(t as u32).to_le_bytes(), &(nn as u32).to_le_bytes()]);
    }
    let shares = sk.split(2, 3).expect("split");
    let pks: Vec<PublicKeyShare<C>> = shares.iter().map(|s| s.public_key().unwrap()).collect();
    let sb: Vec<SignatureShare<C>> = shares.iter().map(|s| s.sign(SignatureSchemes::Basic, &msg).unwrap()).collect();
    let sp: Vec<SignatureShare<C>> = shares.iter().map(|s| s.sign(SignatureSchemes::ProofOfPossession, &msg).unwrap()).collect();
    let case = |ctx: &mut Ctx, name: &str, ok: Option<bool>| {
        ctx.expect(ok == Some(false), &format!("C08/bad-set-accepted/{n}/{name}"), || json!({"what":"degenerate share set not reported as an error","case":name}));
        ctx.hit(&format!("{n}/errors/sets"), &[name.as_bytes()]);
    };
    // empty / single / duplicate
    let e: Vec<SecretKeyShare<C>> = vec![];
    let r = ctx.guard("SecretKey::combine", || json!({}), || SecretKey::<C>::combine(&e).is_ok());
    case(ctx, "combine([])", r);
    let r = ctx.guard("SecretKey::combine", || json!({}), || SecretKey::<C>::combine(&shares[..1]).is_ok());
    case(ctx, "combine([s])", r);
    let dup = vec![shares[0].clone(), shares[0].clone()];
    let r = ctx.guard("SecretKey::combine", || json!({}), || SecretKey::<C>::combine(&dup).is_ok());
    case(ctx, "combine([s,s])", r);
    let r = ctx.guard("PublicKey::from_shares", || json!({}), || PublicKey::<C>::from_shares(&[]).is_ok());
    case(ctx, "pk_from_shares([])", r);
    let r = ctx.guard("PublicKey::from_shares", || json!({}), || PublicKey::<C>::from_shares(&pks[..1]).is_ok());
    case(ctx, "pk_from_shares([s])", r);
    let r = ctx.guard("PublicKey::from_shares", || json!({}), || PublicKey::<C>::from_shares(&[pks[1], pks[1]]).is_ok());
    case(ctx, "pk_from_shares([s,s])", r);
    let r = ctx.guard("Signature::from_shares", || json!({}), || Signature::<C>::from_shares(&[]).is_ok());
    case(ctx, "sig_from_shares([])", r);
    let r = ctx.guard("Signature::from_shares", || json!({}), || Signature::<C>::from_shares(&sb[..1]).is_ok());
    case(ctx, "sig_from_shares([s])", r);
    let r = ctx.guard("Signature::from_shares", || json!({}), || Signature::<C>::from_shares(&[sb[2], sb[2]]).is_ok());
    case(ctx, "sig_from_shares([s,s])", r);
    // same identifier, different value
    {
        let (_, v1) = pk_share_parts::<C>(&pks[1]);
        let a = pks[0];
        let b = PublicKeyShare::<C>(pk_share_raw::<C>(a.0.identifier(), &v1));
        let r = ctx.guard("PublicKey::from_shares", || json!({}), || PublicKey::<C>::from_shares(&[a, b]).is_ok());
        case(ctx, "pk_from_shares(equal identifiers)", r);
    }
    // identifier forced to zero
    {
        let (_, v0) = pk_share_parts::<C>(&pks[0]);
        let z = PublicKeyShare::<C>(pk_share_raw::<C>(0, &v0));
        let r = ctx.guard("PublicKey::from_shares", || json!({}), || PublicKey::<C>::from_shares(&[z, pks[1]]).is_ok());
        case(ctx, "pk_from_shares(id=0)", r);
        let (_, s0) = sig_share_parts::<C>(&sb[0]);
        let z = wrap_sig_share::<C>(Scheme::Basic, sig_share_raw::<C>(0, &s0));
        let r = ctx.guard("Signature::from_shares", || json!({}), || Signature::<C>::from_shares(&[z, sb[1]]).is_ok());
        case(ctx, "sig_from_shares(id=0)", r);
        let mut raw = Vec::from(&shares[0]);
        raw[0] = 0;
        if let Ok(z) = SecretKeyShare::<C>::try_from(raw.as_slice()) {
            let r = ctx.guard("SecretKey::combine", || json!({}), || SecretKey::<C>::combine(&[z.clone(), shares[1].clone()]).is_ok());
            case(ctx, "combine(id=0)", r);
        }
    }
    // mixed schemes
    let r = ctx.guard("Signature::from_shares", || json!({}), || Signature::<C>::from_shares(&[sb[0], sp[1]]).is_ok());
    case(ctx, "sig_from_shares(Basic+PoP)", r);
    let r = ctx.guard("Signature::from_shares", || json!({}), || Signature::<C>::from_shares(&[sp[0], sb[1], sp[2]]).is_ok());
    case(ctx, "sig_from_shares(PoP+Basic+PoP)", r);
    let r = ctx.guard("Signature::from_shares", || json!({}), || Signature::<C>::from_shares(&[sp[0], sp[1], sb[2]]).is_ok());
    case(ctx, "sig_from_shares(PoP+PoP+Basic)", r);
    // message-augmentation partial signing is unsupported and must say so
    let r = ctx.guard("SecretKeyShare::sign", || json!({}), || shares[0].sign(SignatureSchemes::MessageAugmentation, &msg).is_ok());
    case(ctx, "share_sign(MessageAugmentation)", r);
}

/// One 2-of-3 split, one message: every participant's partial signature under Basic and
/// ProofOfPossession (answer = the reference's signature with the share scalar), every partial
/// signature against every public-key share, recombination of key / public key / signature from
/// two shares - asked in every ordered pair as a, b, b, a.
fn history_cluster<C: Suite>(ctx: &mut Ctx, g: u64, i: usize) {
    use super::history::{q, sandwiches, Q};
    let mut rng = ctx.rng(g);
    let n = C::NAME;
    let k = gen::random_scalar(&mut rng);
    let sk = sk_from_rs::<C>(&k);
    let msg = gen::message([32usize, 0, 7, 100][i % 4], Content::Random, &mut rng);
    let Ok(shares) = sk.split(2, 3) else { return };
    let Ok(pks) = shares.iter().map(|s| s.public_key()).collect::<Result<Vec<PublicKeyShare<C>>, _>>() else { return };
    type A = Option<Vec<u8>>;
    let verdict = |b: bool| -> A { Some(vec![b as u8]) };
    let mut qs: Vec<Q<A>> = Vec::new();
    let (sharesr, pksr, msgr) = (&shares, &pks, &msg);
    for s1 in [Scheme::Basic, Scheme::Pop] {
        let mut partials: Vec<SignatureShare<C>> = Vec::new();
        for p in 0..3usize {
            let (_, x) = sk_share_parts::<C>(&shares[p]);
            let want = refimpl::sign::<C::R>(s1, &x, &msg).enc();
            qs.push(q(format!("partial-sign/{}/participant-{p}", s1.name()), Some(want), move || sharesr[p].sign(lscheme(s1), msgr).ok().map(|ss| sig_share_parts::<C>(&ss).1)));
            let Ok(ss) = shares[p].sign(lscheme(s1), &msg) else { return };
            partials.push(ss);
        }
        for p in 0..3usize {
            for kj in 0..3usize {
                let ss = partials[p];
                qs.push(q(format!("partial-verify/{}/signature-{p}-key-share-{kj}", s1.name()), verdict(p == kj), move || verdict(pksr[kj].verify(&ss, msgr).is_ok())));
            }
        }
        let two = vec![partials[0], partials[2]];
        let whole = refimpl::sign::<C::R>(s1, &k, &msg).enc();
        qs.push(q(format!("recombine/signature-{}", s1.name()), Some(whole), move || Signature::<C>::from_shares(&two).ok().map(|sg| sig_pt_bytes(&sg))));
    }
    let two_sk = vec![shares[1].clone(), shares[2].clone()];
    qs.push(q("recombine/secret-key".to_string(), Some(k.to_be_bytes().to_vec()), move || SecretKey::<C>::combine(&two_sk).ok().map(|x| x.to_be_bytes().to_vec())));
    let two_pk = vec![pks[0], pks[1]];
    let pkb = pk_bytes(&sk.public_key());
    qs.push(q("recombine/public-key".to_string(), Some(pkb), move || PublicKey::<C>::from_shares(&two_pk).ok().map(|x| pk_bytes(&x))));
    let d = || json!({"suite":n,"sk":hex::encode(k.to_be_bytes()),"msg":crate::hx(&msg),"t":2,"n":3});
    let mut cid = k.to_be_bytes().to_vec();
    cid.extend_from_slice(&msg);
    sandwiches(ctx, "C08", &format!("{n}/history"), "partials", &cid, &d, &qs);
}
