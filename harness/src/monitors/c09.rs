//! C09 - a proof of possession verifies only for the key that made it.

use super::util::*;
use crate::gen;
use crate::refimpl::{self, RG, RS};
use crate::suite::*;
use crate::{for_both, Ctx};
use blsful::*;
use serde_json::json;

pub const RULE: &str = "keys = edge scalars E + magnitude boundaries (2^32, 2^64-1, 2^64, 2^248, 0x73*2^248 quick; 2^k-1, 2^k, 2^k+1 thorough) + random pool (12 quick / 100 thorough), both groups. Per key: proof_of_possession twice (determinism), verify against own key (library and reference PopVerify), byte equality with reference PopProve; every ORDERED pair of distinct keys in the pool: proof of i against key j must fail (library and reference); every negative question is asked three times in a row, directly after an accepted one (an acceptance on any attempt counts); perturbations of the proof point: +G, negation, doubling, the identity point (as a constant and as P-P), the honest proof against the identity public key, P+pop(other), a plain signature (each scheme) over the public-key bytes, the proof moved by a cofactor-torsion point presented as bytes to all three decoders, re-encoded (must still pass). History clusters (3 quick / 48 thorough per group, shared with C01/C03): prove and verify possession (own key, another key) next to signing and verifying under every scheme and both group assignments, every ordered pair (a,b) as a,b,b,a with the reference's answers. Distinct by (suite, kind, pk, proof); non-trivial = both points decode and the pairing equation decides.";

pub fn run(ctx: &mut Ctx) {
    for_both!(run_suite, ctx);
}

fn run_suite<C: Suite>(ctx: &mut Ctx) {
    let base: u64 = if C::NAME == "G1Impl" { 0 } else { 1 << 32 };
    let n = C::NAME;
    let mut g = base;
    let mut erng = ctx.rng_l(base, "pool");
    let mut pool: Vec<(String, RS)> = gen::edge_scalars(&mut erng)
        .into_iter()
        .map(|(a, b)| (a.to_string(), b))
        .collect();
    {
        let mags = gen::magnitude_scalars();
        let quick = ["2^32", "u64::MAX", "2^64", "2^248", "0x73*2^248"];
        for (name, k) in mags {
            if ctx.tier == crate::Tier::Thorough || quick.contains(&name.as_str()) {
                pool.push((format!("magnitude {name}"), k));
            }
        }
    }
    let extra = ctx.tier.pick(2, 90);
    for _ in 0..extra {
        pool.push(("random".into(), gen::random_scalar(&mut erng)));
    }
    // all proofs (cheap) - every worker computes the pool, pairs are sharded
    // the pool must hold pairwise DISTINCT keys (the magnitude list repeats some edge scalars,
    // e.g. 2^254): "another key" below means another scalar
    {
        let mut seen: Vec<RS> = Vec::new();
        pool.retain(|(_, k)| {
            if seen.contains(k) {
                false
            } else {
                seen.push(*k);
                true
            }
        });
    }
    // a key for which no proof is produced is a violation in itself ("for every non-zero secret
    // key ..."); it is reported once by the worker that owns group `base` and leaves the pool
    let mut proofs: Vec<(Vec<u8>, Vec<u8>)> = Vec::new();
    let mut kept: Vec<(String, RS)> = Vec::new();
    for (kname, k) in pool.iter() {
        let sk = sk_from_rs::<C>(k);
        match sk.proof_of_possession() {
            Ok(pop) => {
                proofs.push((pk_bytes(&sk.public_key()), Vec::from(&pop)));
                kept.push((kname.clone(), *k));
            }
            Err(e) => {
                if ctx.mine(base) {
                    ctx.violation(&format!("C09/prove-failed/{n}"), json!({"what":"proof_of_possession returns an error for a non-zero secret key","sk":hex::encode(k.to_be_bytes()),"sk_class":kname,"error":e.to_string()}));
                }
            }
        }
    }
    let pool = kept;
    for c in ["own", "other-key", "perturbed", "reencoded", "history"] {
        ctx.require(&format!("{n}/{c}"));
    }
    // history clusters: prove / verify possession next to signing and verifying under every
    // scheme and both group assignments, every ordered pair as a,b,b,a (shared with C01/C03)
    for i in 0..ctx.tier.pick(3, 48) {
        let gg = base + 5000 + i as u64;
        if !ctx.mine(gg) {
            continue;
        }
        let mut rng = ctx.rng(gg);
        let sk = if i % 2 == 0 { pool[i % pool.len()].1 } else { gen::random_scalar(&mut rng) };
        let msg = if i % 3 == 0 { pk_bytes(&sk_from_rs::<C>(&sk).public_key()) } else { gen::random_bytes([32usize, 48, 96][i % 3], &mut rng) };
        super::c01::history_cluster::<C>(ctx, "C09", &sk, &msg);
    }
    for (i, (kname, k)) in pool.iter().enumerate() {
        g += 1;
        if !ctx.mine(g) {
            continue;
        }
        let mut rng = ctx.rng(g);
        let sk = sk_from_rs::<C>(k);
        let pk = sk.public_key();
        let (pkb, popb) = &proofs[i];
        let d = |what: &str| json!({"what":what,"suite":n,"sk":hex::encode(k.to_be_bytes()),"sk_class":kname,"pk":hex::encode(pkb),"proof":hex::encode(popb)});
        // determinism
        let again = sk.proof_of_possession().map(|p| Vec::from(&p)).ok();
        ctx.expect(again.as_deref() == Some(&popb[..]), &format!("C09/nondeterministic/{n}"), || d("two proofs differ"));
        ctx.expect(*popb == refimpl::pop_prove::<C::R>(k).enc(), &format!("C09/differs-from-reference/{n}"), || d("proof != reference PopProve"));
        let pop = ProofOfPossession::<C>::try_from(popb.as_slice()).expect("decode own proof");
        let ok = ctx.guard("ProofOfPossession::verify", || d("verify"), || pop.verify(pk).is_ok());
        ctx.expect(ok == Some(true), &format!("C09/own-rejected/{n}"), || d("own proof rejected"));
        ctx.expect(refimpl::pop_verify::<C::R>(pkb, popb), &format!("C09/own-rejected-by-reference/{n}"), || d("reference rejects"));
        ctx.hit(&format!("{n}/own"), &[pkb, popb]);
        ctx.sample(&format!("{n}/own"), || d("own proof accepted by library and reference"));

        // perturbations
        let p = RSig::<C>::dec(popb).unwrap();
        let gs = RSig::<C>::gen();
        let other = gen::random_scalar(&mut rng);
        let two = RS::ONE + RS::ONE;
        let mut variants: Vec<(String, RSig<C>, bool)> = vec![
            ("+G".into(), p.add(gs), false),
            ("-P".into(), p.neg(), false),
            ("2P".into(), p.mul(&two), false),
            ("P+pop(other)".into(), p.add(refimpl::pop_prove::<C::R>(&other)), false),
            ("(P+Q)-Q".into(), p.add(gs).sub(gs), true),
            // the proof replaced by the identity point ("any change to the proof makes it fail";
            // the reference's PopVerify refuses it like every other wrong point)
            ("identity".into(), RSig::<C>::id(), false),
            ("P-P".into(), p.sub(p), false),
        ];
        for s in refimpl::SCHEMES {
            // a signature over the public-key bytes under a signature tag is not a proof
            variants.push((format!("sig-{}-over-pk", s.name()), refimpl::sign::<C::R>(s, k, pkb), false));
        }
        for (vn, q, expect) in variants {
            let qb = q.enc();
            let r = refimpl::pop_verify::<C::R>(pkb, &qb);
            if r != expect {
                ctx.harness_error(format!("C09 expectation != reference for {vn}"));
                continue;
            }
            let lq = ProofOfPossession::<C>(ls::<C>(q));
            // asked three times in a row: the verdict of a pure check must not depend on how
            // often (or after what) it is asked; an acceptance on any attempt counts
            let got = ctx.guard("ProofOfPossession::verify", || d(&vn), || {
                let a = [lq.verify(pk).is_ok(), lq.verify(pk).is_ok(), lq.verify(pk).is_ok()];
                if expect { a.iter().all(|x| *x) } else { a.iter().any(|x| *x) }
            });
            if let Some(got) = got {
                let sig = if expect { format!("C09/valid-rejected/{n}") } else { format!("C09/perturbed-accepted/{n}/{vn}") };
                ctx.expect(got == expect, &sig, || {
                    let mut x = d(&vn);
                    x["perturbed_proof"] = json!(hex::encode(&qb));
                    x
                });
                ctx.hit(&format!("{n}/{}", if expect { "reencoded" } else { "perturbed" }), &[pkb, &qb]);
            }
        }
        // the proof moved by a point of the cofactor torsion (T = [r]Q for a curve point Q outside
        // the subgroup): P + T is not a subgroup point and, where T pairs trivially, satisfies the
        // verification equation - it only exists as BYTES, so it goes through every decoder; a
        // decoder may refuse it (C16) but whatever is decoded must not verify
        if let Some(qb) = refimpl::non_subgroup_points::<RSig<C>>(11, 1).pop() {
            if let Some(q0) = RSig::<C>::dec_unchecked(&qb) {
                let t = q0.mul(&-RS::ONE).add(q0);
                if !t.is_id() {
                    let moved = p.add(t).enc();
                    let via_bytes = ProofOfPossession::<C>::try_from(moved.as_slice()).ok();
                    let via_bare: Option<ProofOfPossession<C>> = serde_bare::from_slice(&moved).ok();
                    let via_json: Option<ProofOfPossession<C>> = serde_json::from_str(&format!("\"{}\"", hex::encode(&moved))).ok();
                    for (cn, v) in [("bytes", via_bytes), ("bare", via_bare), ("json", via_json)] {
                        let accepted = matches!(v, Some(x) if x.verify(pk).is_ok());
                        ctx.expect(!accepted, &format!("C09/perturbed-accepted/{n}/P+torsion-point/{cn}"), || { let mut x = d("a proof moved by a cofactor-torsion point verifies"); x["perturbed_proof"] = json!(hex::encode(&moved)); x["decoder"] = json!(cn); x });
                        ctx.hit(&format!("{n}/perturbed"), &[b"torsion", cn.as_bytes(), pkb, &moved]);
                    }
                }
            }
        }
        // the honest proof against the identity public key ("rejected for every other public key")
        {
            let idpk = PublicKey::<C>::default();
            let idb = pk_bytes(&idpk);
            if !refimpl::pop_verify::<C::R>(&idb, popb) {
                let got = ctx.guard("ProofOfPossession::verify", || d("identity public key"), || [pop.verify(idpk).is_ok(), pop.verify(idpk).is_ok(), pop.verify(idpk).is_ok()].iter().any(|x| *x));
                if let Some(got) = got {
                    ctx.expect(!got, &format!("C09/foreign-key-accepted/{n}/identity-key"), || d("honest proof accepted for the identity public key"));
                    ctx.hit(&format!("{n}/other-key"), &[&idb, popb]);
                }
            } else {
                ctx.harness_error("C09 reference accepts the identity public key".into());
            }
        }
        // all three decoders of the proof must give a verifying value
        let viab: Option<ProofOfPossession<C>> = serde_bare::to_vec(&pop).ok().and_then(|b| serde_bare::from_slice(&b).ok());
        let viaj: Option<ProofOfPossession<C>> = serde_json::to_vec(&pop).ok().and_then(|b| serde_json::from_slice(&b).ok());
        for (cn, v) in [("bare", viab), ("json", viaj)] {
            let ok = matches!(v, Some(p) if p.verify(pk).is_ok());
            ctx.expect(ok, &format!("C09/reencoded-rejected/{n}/{cn}"), || d("proof rejected after re-encoding"));
            ctx.hit(&format!("{n}/reencoded"), &[cn.as_bytes(), pkb, popb]);
        }

        // ordered pairs (i, j), j != i
        for (j, (pkj, _)) in proofs.iter().enumerate() {
            if i == j {
                continue;
            }
            let lpk = PublicKey::<C>::try_from(pkj.as_slice()).expect("pk");
            // own key (accepted), then the foreign key three times in a row: neither a preceding
            // success nor a preceding failure of the same question may change the answer
            let own_ok = pop.verify(pk).is_ok();
            ctx.expect(own_ok, &format!("C09/own-rejected/{n}"), || d("own proof rejected (asked between foreign-key checks)"));
            let asks = [pop.verify(lpk).is_ok(), pop.verify(lpk).is_ok(), pop.verify(lpk).is_ok()];
            let got = asks.iter().any(|x| *x);
            let r = refimpl::pop_verify::<C::R>(pkj, popb);
            if r {
                ctx.harness_error("C09 reference accepts a foreign proof".into());
            }
            ctx.expect(!got, &format!("C09/foreign-key-accepted/{n}"), || {
                json!({"what":"proof accepted for another public key","verdicts_of_three_consecutive_asks":asks.to_vec(),"proof_of":hex::encode(pkb),"verified_against":hex::encode(pkj),"proof":hex::encode(popb)})
            });
            ctx.hit(&format!("{n}/other-key"), &[pkj, popb]);
        }
    }
}
