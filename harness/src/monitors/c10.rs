//! C10 - signature proofs of knowledge are complete, challenge-bound and time-bound.

use super::util::*;
use crate::gen::{self, Content};
use crate::refimpl::{self, Scheme, RC, SCHEMES};
use crate::suite::*;
use crate::{for_both, hx, Ctx};
use blsful::inner_types::{Field, Group};
use blsful::*;
use serde_json::json;
use std::time::{SystemTime, UNIX_EPOCH};

pub const RULE: &str = "keys x messages (length classes) x {Basic, ProofOfPossession, MessageAugmentation} x 2 groups x challenges {new(), from_hash, random(rng), the scalars 1 and r-1}. Interactive: generate -> finalize -> verify must pass (library and the reference equation e(v,g)*e(u+y*H(m),pk)=1); perturbations that must fail: other y, y+1, message bit flip / empty / extended, other pk, -pk, u+G, v+G, -v, u<->v, each other variant label - every variant is also decided by the reference equation, and one that is by algebraic coincidence itself a valid proof (key 1: u<->v) is not a counterexample and is only counted; finalize with a signature of another scheme must be Err. MessageAugmentation is run twice: with the signed message (known finding C10/completeness/scheme=MessageAugmentation) and with the caller-side workaround msg := pk||m on both sides, which must verify and is perturbed like the others. Timestamp variant: (i) API generate, verify(None) and verify(Some(1h)) pass; (ii) elapsed time is controlled THROUGH THE INPUT: the public trait functions generate_commitment / compute_y / generate_proof build honest proofs carrying any timestamp t = now - D; with timeout T drawn so that |D - T| >= 10 s the proof must be accepted iff D < T, and with None always; the reference re-derives y = H(u || t_le) independently; (iii) altered timestamps on an API-generated proof (t+-1, 0, now+1s, now+1h, u64::MAX/2, u64::MAX) with None, Some(0), Some(1), Some(u64::MAX) must always be Err and never abort; honest proofs carrying FUTURE timestamps with a timeout must not abort (accept/reject not asserted); (iv) one real-time pair per worker: generate, sleep 80 ms, Some(5) rejects, Some(600000) accepts (inconclusive if the harness clock shows > 300 s). Distinct by (suite,scheme,variant,proof bytes). History clusters (2 quick / 8 thorough per group): the proofs of a Basic and a ProofOfPossession signature (interactive and timestamped) and their single-component variants (other challenge / message / key, u+G, v+G, other labels, timestamp+1) asked in ordered pairs (a,b) as a,b,b,a; every answer must equal the answer the question has on its own.";

pub fn run(ctx: &mut Ctx) {
    for_both!(run_suite, ctx);
}

fn now_ms() -> u64 {
    SystemTime::now().duration_since(UNIX_EPOCH).unwrap().as_millis() as u64
}

fn mk<C: Suite>(s: Scheme, u: SigPt<C>, v: SigPt<C>) -> ProofOfKnowledge<C> {
    match s {
        Scheme::Basic => ProofOfKnowledge::Basic { u, v },
        Scheme::Aug => ProofOfKnowledge::MessageAugmentation { u, v },
        Scheme::Pop => ProofOfKnowledge::ProofOfPossession { u, v },
    }
}

fn uv<C: Suite>(p: &ProofOfKnowledge<C>) -> (SigPt<C>, SigPt<C>) {
    match *p {
        ProofOfKnowledge::Basic { u, v } | ProofOfKnowledge::MessageAugmentation { u, v } | ProofOfKnowledge::ProofOfPossession { u, v } => (u, v),
    }
}

fn lib_dst<C: Suite>(s: Scheme) -> &'static [u8] {
    match s {
        Scheme::Basic => <C as BlsSignatureBasic>::DST,
        Scheme::Aug => <C as BlsSignatureMessageAugmentation>::DST,
        Scheme::Pop => <C as BlsSignaturePop>::SIG_DST,
    }
}

fn run_suite<C: Suite>(ctx: &mut Ctx) {
    let base: u64 = if C::NAME == "G1Impl" { 0 } else { 1 << 32 };
    let n = C::NAME;
    let mut g = base;
    let reps = ctx.tier.pick(2, 10);
    for scheme in SCHEMES {
        let sn = scheme.name();
        for c in ["interactive/honest", "interactive/perturbed", "interactive/finalize-mismatch", "timestamp/api", "timestamp/constructed-accept", "timestamp/constructed-reject", "timestamp/altered", "timestamp/perturbed", "timestamp/future-no-abort", "timestamp/reference-y"] {
            ctx.require(&format!("{n}/{sn}/{c}"));
        }
        for rep in 0..reps {
            for (ci, chal) in ["new", "from_hash", "random", "one", "r-1"].iter().enumerate() {
                g += 1;
                if !ctx.mine(g) {
                    continue;
                }
                interactive::<C>(ctx, g, scheme, chal, rep * 5 + ci);
            }
            g += 1;
            if ctx.mine(g) {
                timestamp::<C>(ctx, g, scheme, rep);
            }
        }
    }
    ctx.require(&format!("{n}/timestamp/real-time"));
    g += 1;
    if ctx.mine(g) {
        real_time::<C>(ctx, g);
    }
    ctx.require(&format!("{n}/history"));
    for i in 0..ctx.tier.pick(2, 8) {
        g += 1;
        if ctx.mine(g) {
            history_cluster::<C>(ctx, g, i);
        }
    }
}

/// One key, one message, two challenges: the proofs of Basic and ProofOfPossession signatures
/// (interactive and timestamped) and their single-component variants (other challenge, other
/// message, other key, u+G, v+G, every other label, timestamp+1), asked in ordered pairs as
/// a, b, b, a (all pairs within a scheme's family, sampled pairs across).
fn history_cluster<C: Suite>(ctx: &mut Ctx, g: u64, i: usize) {
    use super::history::{family_pairs, q, sandwich_pairs, Q};
    let mut rng = ctx.rng(g);
    let n = C::NAME;
    let k = gen::key_for(g, &mut rng); // every fourth case: an edge scalar
    let sk = sk_from_rs::<C>(&k);
    let pk = sk.public_key();
    let pk2 = sk_from_rs::<C>(&gen::random_scalar(&mut rng)).public_key();
    let msg = gen::message([32usize, 0, 7, 48, 96, 200][i % 6], Content::Random, &mut rng);
    let mut msg2 = msg.clone();
    msg2.push(0);
    let y = ProofCommitmentChallenge::<C>(sc_from_rs::<C>(&gen::random_scalar(&mut rng)));
    let y2 = ProofCommitmentChallenge::<C>(sc_from_rs::<C>(&gen::random_scalar(&mut rng)));
    type A = Option<Vec<u8>>;
    let verdict = |b: bool| -> A { Some(vec![b as u8]) };
    let mut qs: Vec<Q<A>> = Vec::new();
    let (msgr, msg2r) = (&msg, &msg2);
    let gsig = <SigPt<C> as Group>::generator();
    for s1 in [Scheme::Basic, Scheme::Pop] {
        let Ok(sig) = sk.sign(lscheme(s1), &msg) else { return };
        let Ok(pok) = ProofCommitment::<C>::generate(&msg, sig).and_then(|(c, x)| c.finalize(x, y, sig)) else { return };
        let (u, v) = uv::<C>(&pok);
        let fam = format!("made-{}", s1.name());
        let mut add = |name: &str, want: bool, p: ProofOfKnowledge<C>, key: PublicKey<C>, m: &'_ Vec<u8>, ch: ProofCommitmentChallenge<C>| {
            let m = m.clone();
            qs.push(q(format!("{fam}/{name}"), verdict(want), move || verdict(p.verify(key, &m, ch).is_ok())));
        };
        add("honest", true, pok, pk, msgr, y);
        add("other-challenge", false, pok, pk, msgr, y2);
        add("other-message", false, pok, pk, msg2r, y);
        add("other-key", false, pok, pk2, msgr, y);
        add("u+G", false, mk::<C>(s1, u + gsig, v), pk, msgr, y);
        add("v+G", false, mk::<C>(s1, u, v + gsig), pk, msgr, y);
        for s2 in s1.others() {
            add(&format!("label-{}", s2.name()), false, mk::<C>(s2, u, v), pk, msgr, y);
        }
        // timestamped variant, no timeout (time does not enter the answer)
        let Ok(tp) = ProofOfKnowledgeTimestamp::<C>::generate(&msg, sig) else { return };
        let alt = ProofOfKnowledgeTimestamp::<C> { proof: tp.proof, timestamp: tp.timestamp.wrapping_add(1) };
        let (t1, t2, t3) = (tp, tp, alt);
        let (m1, m2, m3) = (msg.clone(), msg2.clone(), msg.clone());
        qs.push(q(format!("{fam}/timestamp/honest"), verdict(true), move || verdict(t1.verify(pk, &m1, None).is_ok())));
        qs.push(q(format!("{fam}/timestamp/other-message"), verdict(false), move || verdict(t2.verify(pk, &m2, None).is_ok())));
        qs.push(q(format!("{fam}/timestamp/timestamp+1"), verdict(false), move || verdict(t3.verify(pk, &m3, None).is_ok())));
    }
    let pairs = family_pairs(&qs, ctx.tier.pick(100, 400), &mut rng);
    let d = || json!({"suite":n,"sk":hex::encode(k.to_be_bytes()),"msg":crate::hx(&msg),"note":"verdicts answer [1]/[0]"});
    let mut cid = k.to_be_bytes().to_vec();
    cid.extend_from_slice(&msg);
    sandwich_pairs(ctx, "C10", &format!("{n}/history"), "proof-variants", &cid, &d, &qs, &pairs);
}

/// message handed to the proof API for a signature over `msg`
fn proof_msgs<C: Suite>(scheme: Scheme, pk: &PublicKey<C>, msg: &[u8]) -> Vec<(&'static str, Vec<u8>)> {
    if scheme == Scheme::Aug {
        let mut m = pk_bytes(pk);
        m.extend_from_slice(msg);
        vec![("signed-message", msg.to_vec()), ("pk||m workaround", m)]
    } else {
        vec![("signed-message", msg.to_vec())]
    }
}

fn interactive<C: Suite>(ctx: &mut Ctx, g: u64, scheme: Scheme, chal: &str, idx: usize) {
    let mut rng = ctx.rng(g);
    let n = C::NAME;
    let sn = scheme.name();
    let k = gen::key_for(g, &mut rng); // every fourth case: an edge scalar
    let sk = sk_from_rs::<C>(&k);
    let pk = sk.public_key();
    let len = gen::LENGTHS_SMALL[idx % gen::LENGTHS_SMALL.len()];
    let msg = gen::message(len, Content::Random, &mut rng);
    let sig = sk.sign(lscheme(scheme), &msg).expect("sign");
    let y = match chal {
        "new" => ProofCommitmentChallenge::<C>::new(),
        "from_hash" => ProofCommitmentChallenge::<C>::from_hash(&msg),
        "random" => ProofCommitmentChallenge::<C>::random(ctx.rng_l(g, "chal")),
        "one" => ProofCommitmentChallenge::<C>(<Sc<C> as Field>::ONE),
        _ => ProofCommitmentChallenge::<C>(-<Sc<C> as Field>::ONE),
    };
    let yr = rs_from_sc::<C>(&y.0);
    let dst = <C::R as RC>::dst(scheme);
    for (mode, pmsg) in proof_msgs::<C>(scheme, &pk, &msg) {
        let d = |what: &str| json!({"what":what,"suite":n,"scheme":sn,"mode":mode,"challenge":chal,"sk":hex::encode(k.to_be_bytes()),"msg":hx(&msg),"y":hex::encode(yr.to_be_bytes())});
        let known_gap = scheme == Scheme::Aug && mode == "signed-message";
        let com = ctx.guard("ProofCommitment::generate", || d("generate"), || ProofCommitment::<C>::generate(&pmsg, sig));
        let Some(Ok((com, x))) = com else {
            ctx.violation(&format!("C10/generate-failed/{n}/{sn}"), d("commitment generation failed"));
            continue;
        };
        let fin = ctx.guard("ProofCommitment::finalize", || d("finalize"), || com.finalize(x, y, sig));
        let Some(Ok(pok)) = fin else {
            ctx.violation(&format!("C10/finalize-failed/{n}/{sn}"), d("a holder of a valid signature cannot complete the protocol"));
            continue;
        };
        let pb = Vec::from(&pok);
        let Some(ok) = ctx.guard("ProofOfKnowledge::verify", || d("verify"), || pok.verify(pk, &pmsg, y).is_ok()) else { continue };
        let (u, v) = uv(&pok);
        let rok = refimpl::pok_verify::<C::R>(r_sig::<C>(&u).unwrap(), r_sig::<C>(&v).unwrap(), rpk_of::<C>(&pk), &yr, &pmsg, dst);
        if known_gap {
            // D7: commitment uses H(m), signature is over pk||m
            if !ok {
                ctx.violation("C10/completeness/scheme=MessageAugmentation", d("proof of knowledge of a message-augmentation signature does not verify with the signed message"));
            }
            ctx.hit(&format!("{n}/{sn}/interactive/honest"), &[b"gap", &pb]);
            continue;
        }
        ctx.expect(ok, &format!("C10/completeness/interactive/{n}/scheme={sn}"), || d("honest proof does not verify"));
        ctx.expect(rok == ok, &format!("C10/reference-disagrees/{n}/{sn}"), || d("reference verification equation disagrees with the library on an honest proof"));
        ctx.hit(&format!("{n}/{sn}/interactive/honest"), &[&pb]);
        ctx.sample(&format!("{n}/{sn}/interactive/honest"), || { let mut x = d("honest proof verifies (library + reference)"); x["proof"] = json!(hex::encode(&pb)); x });
        // wire round trip of all protocol messages
        let com_b = Vec::from(&com);
        let rt = ProofCommitment::<C>::try_from(com_b.as_slice()).ok().map(|c| c == com).unwrap_or(false)
            && ProofOfKnowledge::<C>::try_from(pb.as_slice()).ok().map(|p| p.verify(pk, &pmsg, y).is_ok()).unwrap_or(false)
            && ProofCommitmentChallenge::<C>::try_from(Vec::from(&y).as_slice()).ok().map(|c| c == y).unwrap_or(false);
        ctx.expect(rt, &format!("C10/wire-roundtrip/{n}/{sn}"), || d("protocol messages do not survive encoding"));
        if !ok {
            continue;
        }
        // ---- perturbations
        let gs = <SigPt<C> as Group>::generator();
        let other = sk_from_rs::<C>(&gen::random_scalar(&mut rng));
        let y_other = ProofCommitmentChallenge::<C>::from_hash(b"another challenge");
        let y_plus = ProofCommitmentChallenge::<C>(y.0 + <Sc<C> as Field>::ONE);
        let mut cases: Vec<(String, ProofOfKnowledge<C>, PublicKey<C>, Vec<u8>, ProofCommitmentChallenge<C>)> = vec![
            ("other-y".into(), pok, pk, pmsg.clone(), y_other),
            ("y+1".into(), pok, pk, pmsg.clone(), y_plus),
            ("msg-extended".into(), pok, pk, { let mut m = pmsg.clone(); m.push(0); m }, y),
            ("other-pk".into(), pok, other.public_key(), pmsg.clone(), y),
            ("-pk".into(), pok, PublicKey(-pk.0), pmsg.clone(), y),
            ("u+G".into(), mk::<C>(scheme, u + gs, v), pk, pmsg.clone(), y),
            ("v+G".into(), mk::<C>(scheme, u, v + gs), pk, pmsg.clone(), y),
            ("-v".into(), mk::<C>(scheme, u, -v), pk, pmsg.clone(), y),
            ("u<->v".into(), mk::<C>(scheme, v, u), pk, pmsg.clone(), y),
        ];
        // y + 2^k: a verifier that binds only part of the challenge accepts some of these
        {
            let two = <Sc<C> as Field>::ONE + <Sc<C> as Field>::ONE;
            let mut p = <Sc<C> as Field>::ONE;
            for k in 0..255u32 {
                let all = ctx.tier == crate::Tier::Thorough;
                if all || [0u32, 1, 7, 8, 63, 64, 127, 128, 200, 246, 247, 248, 249, 250, 251, 252, 253, 254].contains(&k) {
                    cases.push((format!("y+2^{k}"), pok, pk, pmsg.clone(), ProofCommitmentChallenge::<C>(y.0 + p)));
                    cases.push((format!("y-2^{k}"), pok, pk, pmsg.clone(), ProofCommitmentChallenge::<C>(y.0 - p)));
                }
                p *= two;
            }
        }
        if !pmsg.is_empty() {
            let b = gen::below(&mut rng, pmsg.len() * 8);
            cases.push(("msg-bitflip".into(), pok, pk, gen::flip_bit(&pmsg, b), y));
            cases.push(("msg-empty".into(), pok, pk, vec![], y));
        }
        for o in scheme.others() {
            cases.push((format!("label->{}", o.name()), mk::<C>(o, u, v), pk, pmsg.clone(), y));
        }
        for (vn, p2, pk2, m2, y2) in cases {
            let Some(got) = ctx.guard("ProofOfKnowledge::verify", || d(&vn), || p2.verify(pk2, &m2, y2).is_ok()) else { continue };
            let vclass = if vn.starts_with("y+2^") || vn.starts_with("y-2^") { "y+-2^k".to_string() } else { vn.clone() };
            // the reference equation decides whether the changed proof is, by algebraic coincidence,
            // itself a valid proof (for the key 1 the swap u<->v is the honest proof with commitment
            // secret -(x+y)): such a variant is not a counterexample; nothing is asserted about it
            let label = match p2 {
                ProofOfKnowledge::Basic { .. } => Scheme::Basic,
                ProofOfKnowledge::MessageAugmentation { .. } => Scheme::Aug,
                ProofOfKnowledge::ProofOfPossession { .. } => Scheme::Pop,
            };
            let (u2, v2) = uv(&p2);
            let rexp = match (r_sig::<C>(&u2), r_sig::<C>(&v2)) {
                (Some(ru), Some(rv)) => refimpl::pok_verify::<C::R>(ru, rv, rpk_of::<C>(&pk2), &rs_from_sc::<C>(&y2.0), &m2, <C::R as RC>::dst(label)),
                _ => false,
            };
            if rexp {
                // indistinguishable from an honest proof: nothing is asserted about it
                ctx.count("perturbation-that-is-itself-a-valid-proof", 1);
                let _ = got;
                continue;
            }
            ctx.expect(!got, &format!("C10/perturbed-accepted/interactive/{n}/{sn}/{vclass}"), || { let mut x = d("a proof verifies after one component was changed"); x["variant"] = json!(vn); x });
            ctx.hit(&format!("{n}/{sn}/interactive/perturbed"), &[vn.as_bytes(), &pb]);
        }
        // finalize with a signature of another scheme
        for o in scheme.others() {
            let so = sk.sign(lscheme(o), &msg).expect("sign");
            let (c2, x2) = ProofCommitment::<C>::generate(&pmsg, sig).expect("generate");
            let Some(r) = ctx.guard("ProofCommitment::finalize", || d("finalize mismatch"), || c2.finalize(x2, y, so).is_ok()) else { continue };
            ctx.expect(!r, &format!("C10/finalize-scheme-mismatch-accepted/{n}/{sn}->{}", o.name()), || d("finalize accepted a signature of another scheme"));
            ctx.hit(&format!("{n}/{sn}/interactive/finalize-mismatch"), &[&[o.wire()], &pb]);
        }
    }
}

/// build an honest timestamp proof carrying an arbitrary timestamp through the public trait functions
fn build_ts<C: Suite>(scheme: Scheme, pmsg: &[u8], sig: &Signature<C>, t: u64) -> Option<ProofOfKnowledgeTimestamp<C>> {
    let (u, x) = <C as BlsSignatureProof>::generate_commitment(pmsg, lib_dst::<C>(scheme)).ok()?;
    let y = <C as BlsSignatureProof>::compute_y(u, t);
    let (u, v) = <C as BlsSignatureProof>::generate_proof(u, x, y, *sig.as_raw_value()).ok()?;
    Some(ProofOfKnowledgeTimestamp { proof: mk::<C>(scheme, u, v), timestamp: t })
}

fn timestamp<C: Suite>(ctx: &mut Ctx, g: u64, scheme: Scheme, rep: usize) {
    let mut rng = ctx.rng(g);
    let n = C::NAME;
    let sn = scheme.name();
    let k = gen::key_for(g, &mut rng); // every fourth case: an edge scalar
    let sk = sk_from_rs::<C>(&k);
    let pk = sk.public_key();
    let len = gen::LENGTHS_SMALL[(rep + 3) % gen::LENGTHS_SMALL.len()];
    let msg = gen::message(len, Content::Random, &mut rng);
    let sig = sk.sign(lscheme(scheme), &msg).expect("sign");
    let dst = <C::R as RC>::dst(scheme);
    for (mode, pmsg) in proof_msgs::<C>(scheme, &pk, &msg) {
        let known_gap = scheme == Scheme::Aug && mode == "signed-message";
        let d = |what: &str| json!({"what":what,"suite":n,"scheme":sn,"mode":mode,"sk":hex::encode(k.to_be_bytes()),"msg":hx(&msg)});
        // (i) API path
        let t0 = now_ms();
        let tp = ctx.guard("ProofOfKnowledgeTimestamp::generate", || d("generate"), || ProofOfKnowledgeTimestamp::<C>::generate(&pmsg, sig));
        let t1 = now_ms();
        let Some(Ok(tp)) = tp else {
            ctx.violation(&format!("C10/ts-generate-failed/{n}/{sn}"), d("timestamp proof generation failed"));
            continue;
        };
        let a = ctx.guard("ProofOfKnowledgeTimestamp::verify", || d("verify None"), || tp.verify(pk, &pmsg, None).is_ok());
        let b = ctx.guard("ProofOfKnowledgeTimestamp::verify", || d("verify 1h"), || tp.verify(pk, &pmsg, Some(3_600_000)).is_ok());
        let (Some(a), Some(b)) = (a, b) else { continue };
        if known_gap {
            if !a {
                ctx.violation("C10/completeness/scheme=MessageAugmentation", d("timestamp proof of knowledge of a message-augmentation signature does not verify with the signed message"));
            }
            ctx.hit(&format!("{n}/{sn}/timestamp/api"), &[b"gap", &Vec::from(&tp)]);
            continue;
        }
        ctx.expect(a, &format!("C10/completeness/timestamp-none/{n}/scheme={sn}"), || d("fresh timestamp proof rejected without timeout"));
        ctx.expect(b, &format!("C10/completeness/timestamp-within/{n}/scheme={sn}"), || d("fresh timestamp proof rejected within a one-hour timeout"));
        ctx.expect(tp.timestamp + 2000 >= t0 && tp.timestamp <= t1 + 2000, &format!("C10/timestamp-not-now/{n}"), || { let mut x = d("generated timestamp is not the current time in ms"); x["timestamp"] = json!(tp.timestamp); x["now"] = json!(t0); x });
        // reference: y = H(u || t_le), equation holds
        let (u, v) = uv(&tp.proof);
        let ry = refimpl::pok_y::<C::R>(r_sig::<C>(&u).unwrap(), tp.timestamp);
        let ly = rs_from_sc::<C>(&<C as BlsSignatureProof>::compute_y(u, tp.timestamp));
        ctx.expect(ry == ly, &format!("C10/reference-y-differs/{n}"), || d("compute_y differs from the reference H(u || t_le) with the recorded salt"));
        let rok = refimpl::pok_verify::<C::R>(r_sig::<C>(&u).unwrap(), r_sig::<C>(&v).unwrap(), rpk_of::<C>(&pk), &ry, &pmsg, dst);
        ctx.expect(rok, &format!("C10/reference-rejects-timestamp-proof/{n}/{sn}"), || d("reference equation with independently derived y rejects the library's proof"));
        ctx.hit(&format!("{n}/{sn}/timestamp/api"), &[&Vec::from(&tp)]);
        ctx.hit(&format!("{n}/{sn}/timestamp/reference-y"), &[&Vec::from(&tp)]);
        ctx.sample(&format!("{n}/{sn}/timestamp/api"), || { let mut x = d("fresh timestamp proof accepted (None, 1h); reference y matches"); x["timestamp"] = json!(tp.timestamp); x });
        if !a {
            continue;
        }

        // (ii) elapsed time through the input
        const S: u64 = 1000;
        let deltas: [u64; 7] = [0, 1 * S, 15 * S, 60 * S, 3600 * S, 86_400 * S, 315_360_000 * S];
        for (di, &delta) in deltas.iter().enumerate() {
            let now = now_ms();
            let t = now - delta;
            let Some(p) = build_ts::<C>(scheme, &pmsg, &sig, t) else {
                ctx.harness_error("cannot construct timestamp proof".into());
                continue;
            };
            let pbytes = Vec::from(&p);
            let none = ctx.guard("ProofOfKnowledgeTimestamp::verify", || d("constructed None"), || p.verify(pk, &pmsg, None).is_ok());
            if let Some(none) = none {
                ctx.expect(none, &format!("C10/constructed-rejected-without-timeout/{n}/{sn}"), || { let mut x = d("honest proof with a past timestamp rejected without timeout"); x["delta_ms"] = json!(delta); x });
                ctx.hit(&format!("{n}/{sn}/timestamp/constructed-accept"), &[b"none", &pbytes]);
            }
            let mut touts: Vec<u64> = vec![delta + 10 * S, delta + 3600 * S, delta.saturating_mul(2) + 20 * S, u64::MAX, u64::MAX / 2];
            if delta >= 10 * S {
                touts.extend([delta - 10 * S, delta / 2, 0, 1]);
            }
            if di == 0 {
                touts.push(10 * S);
            }
            for tt in touts {
                let before = now_ms();
                let got = ctx.guard("ProofOfKnowledgeTimestamp::verify", || d("constructed Some"), || p.verify(pk, &pmsg, Some(tt)).is_ok());
                let after = now_ms();
                let Some(got) = got else { continue };
                // elapsed as the library could have seen it lies in [before - t, after - t]
                let (lo, hi) = (before.saturating_sub(t), after.saturating_sub(t));
                let expect = if hi + 5 * S < tt || (hi <= tt && tt == u64::MAX) {
                    Some(true)
                } else if lo > tt.saturating_add(5 * S) {
                    Some(false)
                } else {
                    None
                };
                match expect {
                    Some(true) => {
                        ctx.expect(got, &format!("C10/rejected-within-timeout/{n}/{sn}"), || { let mut x = d("honest proof rejected although the timeout has not elapsed"); x["elapsed_ms"] = json!([lo, hi]); x["timeout_ms"] = json!(tt); x });
                        ctx.hit(&format!("{n}/{sn}/timestamp/constructed-accept"), &[&tt.to_le_bytes(), &pbytes]);
                    }
                    Some(false) => {
                        ctx.expect(!got, &format!("C10/accepted-after-timeout/{n}/{sn}"), || { let mut x = d("proof accepted although the timeout has elapsed"); x["elapsed_ms"] = json!([lo, hi]); x["timeout_ms"] = json!(tt); x });
                        ctx.hit(&format!("{n}/{sn}/timestamp/constructed-reject"), &[&tt.to_le_bytes(), &pbytes]);
                    }
                    None => ctx.count("timing-band-skipped", 1),
                }
            }
        }
        // future timestamps on honest proofs: must not abort
        for ahead in [1 * S, 3600 * S, 86_400_000 * S] {
            let t = now_ms().saturating_add(ahead);
            for t in [t, u64::MAX, u64::MAX / 2, 1u64 << 63, (1u64 << 32) * 1000] {
                let Some(p) = build_ts::<C>(scheme, &pmsg, &sig, t) else { continue };
                for tt in [None, Some(0u64), Some(1), Some(60 * S), Some(u64::MAX)] {
                    let r = ctx.guard("ProofOfKnowledgeTimestamp::verify", || json!({"timestamp":t,"timeout":tt,"what":"honest proof with a future timestamp"}), || p.verify(pk, &pmsg, tt).is_ok());
                    if let Some(r) = r {
                        if tt.is_none() {
                            ctx.expect(r, &format!("C10/constructed-rejected-without-timeout/{n}/{sn}"), || d("honest proof (future timestamp) rejected without timeout"));
                        }
                        ctx.hit(&format!("{n}/{sn}/timestamp/future-no-abort"), &[&t.to_le_bytes(), &tt.unwrap_or(7).to_le_bytes(), &[tt.is_some() as u8]]);
                    }
                }
            }
        }
        // (iii) altered timestamps on the API-generated proof
        let now = now_ms();
        for t2 in [tp.timestamp + 1, tp.timestamp - 1, 0, now + S, now + 3600 * S, u64::MAX, u64::MAX / 2, tp.timestamp ^ (1 << 40), tp.timestamp - 60 * S] {
            if t2 == tp.timestamp {
                continue;
            }
            let p2 = ProofOfKnowledgeTimestamp::<C> { proof: tp.proof, timestamp: t2 };
            for tt in [None, Some(0u64), Some(1), Some(3_600_000), Some(u64::MAX)] {
                let r = ctx.guard("ProofOfKnowledgeTimestamp::verify", || json!({"timestamp":t2,"timeout":tt,"what":"altered timestamp"}), || p2.verify(pk, &pmsg, tt).is_ok());
                let Some(r) = r else { continue };
                ctx.expect(!r, &format!("C10/altered-timestamp-accepted/{n}/{sn}"), || { let mut x = d("a proof verifies after its timestamp was altered"); x["original"] = json!(tp.timestamp); x["altered"] = json!(t2); x["timeout"] = json!(tt); x });
                ctx.hit(&format!("{n}/{sn}/timestamp/altered"), &[&t2.to_le_bytes(), &tt.unwrap_or(7).to_le_bytes(), &[tt.is_some() as u8], &Vec::from(&tp)]);
            }
        }
        // perturbations of the other components
        let gs = <SigPt<C> as Group>::generator();
        let other = sk_from_rs::<C>(&gen::random_scalar(&mut rng));
        let mut cases: Vec<(String, ProofOfKnowledgeTimestamp<C>, PublicKey<C>, Vec<u8>)> = vec![
            ("other-pk".into(), tp, other.public_key(), pmsg.clone()),
            ("-pk".into(), tp, PublicKey(-pk.0), pmsg.clone()),
            ("msg-extended".into(), tp, pk, { let mut m = pmsg.clone(); m.push(1); m }),
            ("u+G".into(), ProofOfKnowledgeTimestamp { proof: mk::<C>(scheme, u + gs, v), timestamp: tp.timestamp }, pk, pmsg.clone()),
            ("v+G".into(), ProofOfKnowledgeTimestamp { proof: mk::<C>(scheme, u, v + gs), timestamp: tp.timestamp }, pk, pmsg.clone()),
            ("-v".into(), ProofOfKnowledgeTimestamp { proof: mk::<C>(scheme, u, -v), timestamp: tp.timestamp }, pk, pmsg.clone()),
        ];
        for o in scheme.others() {
            cases.push((format!("label->{}", o.name()), ProofOfKnowledgeTimestamp { proof: mk::<C>(o, u, v), timestamp: tp.timestamp }, pk, pmsg.clone()));
        }
        for (vn, p2, pk2, m2) in cases {
            for tt in [None, Some(3_600_000u64)] {
                let Some(got) = ctx.guard("ProofOfKnowledgeTimestamp::verify", || d(&vn), || p2.verify(pk2, &m2, tt).is_ok()) else { continue };
                ctx.expect(!got, &format!("C10/perturbed-accepted/timestamp/{n}/{sn}/{vn}"), || { let mut x = d("a timestamp proof verifies after one component was changed"); x["variant"] = json!(vn); x });
                ctx.hit(&format!("{n}/{sn}/timestamp/perturbed"), &[vn.as_bytes(), &[tt.is_some() as u8], &Vec::from(&tp)]);
            }
        }
    }
}

fn real_time<C: Suite>(ctx: &mut Ctx, g: u64) {
    let mut rng = ctx.rng(g);
    let n = C::NAME;
    let sk = sk_from_rs::<C>(&gen::random_scalar(&mut rng));
    let pk = sk.public_key();
    let msg = b"real time pair".to_vec();
    let sig = sk.sign(SignatureSchemes::ProofOfPossession, &msg).expect("sign");
    let t0 = now_ms();
    let Ok(tp) = ProofOfKnowledgeTimestamp::<C>::generate(&msg, sig) else { return };
    std::thread::sleep(std::time::Duration::from_millis(80));
    let short = tp.verify(pk, &msg, Some(5)).is_ok();
    let long = tp.verify(pk, &msg, Some(600_000)).is_ok();
    let t1 = now_ms();
    if t1.saturating_sub(t0) > 300_000 || t1 < t0 + 60 {
        ctx.count("real-time-pair-inconclusive", 1);
        ctx.harness_error("real-time pair: harness clock jumped".into());
        return;
    }
    ctx.expect(!short, &format!("C10/accepted-after-timeout/real-time/{n}"), || json!({"what":"proof accepted 80 ms after generation with a 5 ms timeout","elapsed_ms":t1-t0}));
    ctx.expect(long, &format!("C10/rejected-within-timeout/real-time/{n}"), || json!({"what":"proof rejected within a 10 minute timeout","elapsed_ms":t1-t0}));
    ctx.hit(&format!("{n}/timestamp/real-time"), &[&Vec::from(&tp), b"5"]);
    ctx.hit(&format!("{n}/timestamp/real-time"), &[&Vec::from(&tp), b"600000"]);
}
