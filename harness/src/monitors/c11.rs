//! C11 - signcryption round-trips every message and rejects every altered ciphertext.

use crate::gen::{self, Content, CONTENTS};
use crate::refimpl::{self, Scheme, RC, RG, SCHEMES};
use crate::suite::*;
use crate::{for_both, hx, Ctx, Tier};
use blsful::inner_types::{Field, Group};
use blsful::*;
use serde_json::json;

pub const RULE: &str = "message lengths {0..=40, 100..=140, 150..=230 (where point||payload and seed||payload cross 256 bytes), 16383, 16384, 16385, 65535, 65536} (quick: every 3rd of the short ranges + all boundary lengths) x 3 schemes x 2 groups x fresh keys x contents (random everywhere; all-zero, all-0xff and counter at lengths 1,31,32,33,127,128,129,16384 in the quick tier and at every length in the thorough tier). Honest: is_valid()==1, decrypt(sk)==msg, SignCryptDecryptionKey(u*sk).decrypt==msg, sk.sign_decryption_key path, decode(encode(ct)) decrypts, and the REFERENCE opens the library's ciphertext to msg. Tamper: EXHAUSTIVE single-bit flips of the whole byte encoding (u, length prefix, v, w, scheme byte) for one ciphertext of a message <= 8 bytes per (scheme,group) cell, 64 sampled flips for every other ciphertext; component-level changes: u+G, 2u, u of another ciphertext, w+G, -w, w of another ciphertext, v truncated by 1 / to empty / extended by 1 and 32 bytes / one byte changed, each other scheme label; 8 independent wrong keys and the related keys -k, k+1, k-1, 2k, 1/k. A flip whose encoding no longer decodes is counted as rejected-at-decode (trivial); one that decodes to the SAME value (non-canonical scheme byte) is not an alteration; every other one is non-trivial and must give is_valid()==0 and decrypt()==None on all three decrypt paths. Wrong keys must never return the original message. History clusters (1 quick / 6 thorough per group): the ciphertext of every scheme and seven altered copies (three labels, u+G, w+G, a payload bit, payload truncated) through is_valid / decrypt / decryption key / decrypt under a wrong key are asked in ordered pairs (a,b) as a,b,b,a; every answer must equal the answer the question has on its own. Distinct by (suite,scheme,variant,ciphertext bytes).";

pub fn run(ctx: &mut Ctx) {
    for_both!(run_suite, ctx);
}

fn lengths(t: Tier) -> Vec<usize> {
    let mut v: Vec<usize> = Vec::new();
    match t {
        Tier::Quick => {
            v.extend((0..=40).step_by(3));
            v.extend([31, 32, 33]);
            v.extend((100..=140).step_by(7));
            v.extend([127, 128, 129]);
        }
        Tier::Thorough => {
            v.extend(0..=40);
            v.extend(100..=140);
        }
    }
    // lengths at which (48- or 96-byte point || payload) and (32-byte seed || payload) cross 256 bytes
    match t {
        Tier::Quick => v.extend([159usize, 160, 176, 191, 207, 208, 223, 224, 225]),
        Tier::Thorough => v.extend(150..=230),
    }
    v.extend([16383, 16384, 16385, 65535, 65536]);
    v.sort_unstable();
    v.dedup();
    v
}

fn run_suite<C: Suite>(ctx: &mut Ctx) {
    let base: u64 = if C::NAME == "G1Impl" { 0 } else { 1 << 32 };
    let n = C::NAME;
    let mut g = base;
    // quick: random content everywhere, all-zero / all-0xff / counter content at the lengths where
    // the framing changes shape (leading / trailing 0x00 and 0xff next to prefix and padding)
    let contents: &[Content] = &[Content::Random, Content::Zero, Content::Ones, Content::Counter];
    let quick_structured = [1usize, 31, 32, 33, 127, 128, 129, 16384];
    let _ = CONTENTS;
    for scheme in SCHEMES {
        let sn = scheme.name();
        for c in ["honest", "bitflip", "component", "wrong-key", "exhaustive-bitflip"] {
            ctx.require(&format!("{n}/{sn}/{c}"));
        }
        for len in lengths(ctx.tier) {
            for &content in contents {
                if !matches!(content, Content::Random) && (len == 0 || (ctx.tier == Tier::Quick && !quick_structured.contains(&len))) {
                    continue;
                }
                g += 1;
                if !ctx.mine(g) {
                    continue;
                }
                let exhaustive = len == 5 || (len == 6 && ctx.tier == Tier::Quick) || (ctx.tier == Tier::Thorough && (len == 0 || len == 8));
                one::<C>(ctx, g, scheme, len, content, exhaustive && matches!(content, Content::Random));
            }
        }
    }
    ctx.require(&format!("{n}/history"));
    for i in 0..ctx.tier.pick(1, 6) {
        g += 1;
        if ctx.mine(g) {
            history_cluster::<C>(ctx, g, i);
        }
    }
    let s = "single-bit flips of the full byte encoding of the designated short-message ciphertext(s) per (scheme, group)".to_string();
    if !ctx.exhaustive.contains(&s) {
        ctx.exhaustive.push(s);
    }
}

/// all three decrypt paths; returns (is_valid, any path returned Some, any path returned exactly `msg`)
fn probe<C: Suite>(ctx: &mut Ctx, ct: &SignCryptCiphertext<C>, sk: &SecretKey<C>, msg: &[u8]) -> Option<(bool, bool, bool)> {
    let d = || json!({"ct":hx(&Vec::from(ct))});
    let valid = ctx.guard("SignCryptCiphertext::is_valid", d, || bool::from(ct.is_valid()))?;
    let p1 = ctx.guard("SignCryptCiphertext::decrypt", d, || ct_some(ct.decrypt(sk)))?;
    let dk = SignCryptDecryptionKey::<C>(ct.u * sk.0);
    let p2 = ctx.guard("SignCryptDecryptionKey::decrypt", d, || ct_some(dk.decrypt(ct)))?;
    let any = p1.is_some() || p2.is_some();
    let orig = p1.as_deref() == Some(msg) || p2.as_deref() == Some(msg);
    Some((valid, any, orig))
}

fn one<C: Suite>(ctx: &mut Ctx, g: u64, scheme: Scheme, len: usize, content: Content, exhaustive: bool) {
    let mut rng = ctx.rng(g);
    let n = C::NAME;
    let sn = scheme.name();
    let msg = gen::message(len, content, &mut rng);
    let k = gen::key_for(g, &mut rng); // every fourth case: an edge scalar
    let sk = sk_from_rs::<C>(&k);
    let pk = sk.public_key();
    let kb = k.to_be_bytes();
    let dst = <C::R as RC>::dst(scheme);
    let Some(ct) = ctx.guard("PublicKey::sign_crypt", || json!({"msg_len":len}), || pk.sign_crypt(lscheme(scheme), &msg)) else { return };
    let ctb = Vec::from(&ct);
    let d = |what: &str| json!({"what":what,"suite":n,"scheme":sn,"sk":hex::encode(kb),"msg":hx(&msg),"msg_len":len,"ct":hx(&ctb)});

    // ---------------- honest
    let Some((valid, _, orig)) = probe::<C>(ctx, &ct, &sk, &msg) else { return };
    ctx.expect(valid, &format!("C11/honest-invalid/{n}/{sn}"), || d("honest ciphertext reports itself invalid"));
    let p1 = ct_some(ct.decrypt(&sk));
    ctx.expect(p1.as_deref() == Some(&msg[..]), &format!("C11/honest-decrypt/{n}/{sn}"), || d("decrypt(sk) != message"));
    let dk = sk.sign_decryption_key::<&[u8]>(&ct);
    let p2 = ct_some(dk.decrypt(&ct));
    ctx.expect(p2.as_deref() == Some(&msg[..]), &format!("C11/honest-decrypt-key/{n}/{sn}"), || d("SignCryptDecryptionKey.decrypt != message"));
    let _ = orig;
    // v has the documented framing length
    let framed = refimpl::frame(&msg).len();
    ctx.expect(ct.v.len() == framed, &format!("C11/payload-length/{n}/{sn}"), || d("masked payload length differs from LEB128(len)||msg padded to 32"));
    // wire round trip
    let back = SignCryptCiphertext::<C>::try_from(ctb.as_slice());
    ctx.expect(matches!(&back, Ok(b) if *b == ct && ct_some(b.decrypt(&sk)).as_deref() == Some(&msg[..])), &format!("C11/wire-roundtrip/{n}/{sn}"), || d("decode(encode(ct)) differs or no longer decrypts"));
    // reference opens it
    let (ru, rw) = (RPk::<C>::dec(&enc_pt(&ct.u)), RSig::<C>::dec(&enc_pt(&ct.w)));
    let ropen = match (ru, rw) {
        (Some(u), Some(w)) => refimpl::signcrypt_open::<C::R>(&k, u, &ct.v, w, dst),
        _ => None,
    };
    ctx.expect(ropen.as_deref() == Some(&msg[..]), &format!("C11/reference-cannot-open/{n}/{sn}"), || d("the reference implementation does not open the library's ciphertext"));
    ctx.hit(&format!("{n}/{sn}/honest"), &[&ctb]);
    ctx.sample(&format!("{n}/{sn}/honest"), || d("honest: valid, decrypts on all paths, reference opens"));
    if !valid || p1.as_deref() != Some(&msg[..]) {
        return; // twins failed: the negative cases below would be vacuous
    }

    // ---------------- bit flips on the byte encoding
    let nbits = ctb.len() * 8;
    let flips: Vec<usize> = if exhaustive {
        (0..nbits).collect()
    } else {
        let mut f: Vec<usize> = (0..ctx.tier.pick(24, 64)).map(|_| gen::below(&mut rng, nbits)).collect();
        // always hit the payload region and the last byte (scheme)
        let ulen = enc_pt(&ct.u).len();
        f.push(ulen * 8 + 8 + gen::below(&mut rng, 8 * ct.v.len().max(1)));
        f.push(nbits - 1);
        f
    };
    let cell = if exhaustive { format!("{n}/{sn}/exhaustive-bitflip") } else { format!("{n}/{sn}/bitflip") };
    for b in flips {
        let fb = gen::flip_bit(&ctb, b);
        let dec = ctx.guard("SignCryptCiphertext::try_from", || json!({"bytes":hx(&fb)}), || SignCryptCiphertext::<C>::try_from(fb.as_slice()));
        let Some(dec) = dec else { continue };
        match dec {
            Err(_) => ctx.hit_trivial(&cell),
            Ok(c2) if c2 == ct => ctx.count("noncanonical-same-value", 1),
            Ok(c2) => {
                let Some((v, any, _)) = probe::<C>(ctx, &c2, &sk, &msg) else { continue };
                ctx.expect(!v && !any, &format!("C11/altered-accepted/{n}/{sn}/bitflip"), || {
                    let mut x = d("a single-bit change of the ciphertext encoding is still valid or decrypts");
                    x["bit"] = json!(b);
                    x["is_valid"] = json!(v);
                    x["decrypts"] = json!(any);
                    x["altered"] = json!(hx(&fb));
                    x
                });
                ctx.hit(&cell, &[&fb]);
            }
        }
    }
    if exhaustive {
        ctx.count("exhaustive_bitflip_ciphertexts", 1);
    }

    // ---------------- component-level changes
    let other = pk.sign_crypt(lscheme(scheme), &msg);
    let gpk = <PkPt<C> as Group>::generator();
    let gsig = <SigPt<C> as Group>::generator();
    let mut variants: Vec<(String, SignCryptCiphertext<C>)> = Vec::new();
    let mut push = |name: &str, f: &dyn Fn(&mut SignCryptCiphertext<C>)| {
        let mut c = ct.clone();
        f(&mut c);
        variants.push((name.to_string(), c));
    };
    push("u+G", &|c| c.u += gpk);
    push("2u", &|c| c.u = c.u + c.u);
    push("-u", &|c| c.u = -c.u);
    push("u-of-other", &|c| c.u = other.u);
    push("w+G", &|c| c.w += gsig);
    push("-w", &|c| c.w = -c.w);
    push("w-of-other", &|c| c.w = other.w);
    push("v-of-other", &|c| c.v = other.v.clone());
    push("v-truncated-1", &|c| { c.v.pop(); });
    push("v-empty", &|c| c.v.clear());
    push("v-extended-1", &|c| c.v.push(0));
    push("v-extended-32", &|c| c.v.extend_from_slice(&[0u8; 32]));
    push("v-first-byte", &|c| c.v[0] ^= 1);
    push("v-last-byte", &|c| { let l = c.v.len() - 1; c.v[l] ^= 0x80; });
    for o in scheme.others() {
        let on = format!("scheme->{}", o.name());
        push(&on, &|c| c.scheme = lscheme(o));
    }
    for (vn, c2) in variants {
        let Some((v, any, _)) = probe::<C>(ctx, &c2, &sk, &msg) else { continue };
        ctx.expect(!v && !any, &format!("C11/altered-accepted/{n}/{sn}/{vn}"), || {
            let mut x = d("an altered ciphertext is still valid or decrypts");
            x["variant"] = json!(vn);
            x["is_valid"] = json!(v);
            x["decrypts"] = json!(any);
            x
        });
        ctx.hit(&format!("{n}/{sn}/component"), &[vn.as_bytes(), &ctb]);
    }

    // ---------------- wrong keys
    // The construction has no key confirmation: under a wrong key the payload decrypts to
    // pseudo-random bytes whose length prefix is then parsed, so a wrong key returns the ORIGINAL
    // message with probability about 256^-(1+len). For len <= 2 that is observable and is the
    // recorded known finding `C11/wrong-key-decrypts/no-key-confirmation(len<=2)`; for longer
    // messages (probability <= 2^-32 per trial) any observation is reported under its own signature.
    // 8 independent keys and the keys algebraically RELATED to the right one (-k, k+1, k-1, 2k, 1/k)
    let mut wrong: Vec<crate::refimpl::RS> = (0..8).map(|_| gen::random_scalar(&mut rng)).collect();
    {
        use crate::refimpl::RS;
        let one = RS::ONE;
        let inv: Option<RS> = Option::from(k.invert());
        for c in [-k, k + one, k - one, k + k, inv.unwrap_or(one)] {
            if c != k && !bool::from(c.is_zero()) {
                wrong.push(c);
            }
        }
    }
    for (i, wkr) in wrong.iter().enumerate() {
        let i = i as u8;
        let wk = sk_from_rs::<C>(wkr);
        let Some((_, _, orig)) = probe::<C>(ctx, &ct, &wk, &msg) else { continue };
        let sig = if len <= 2 { "C11/wrong-key-decrypts/no-key-confirmation(len<=2)".to_string() } else { format!("C11/wrong-key-decrypts/{n}/{sn}") };
        ctx.expect(!orig, &sig, || d("a different secret key returned the original message"));
        ctx.hit(&format!("{n}/{sn}/wrong-key"), &[&[i], &ctb]);
    }
    // directed search for the known finding, so that it is re-observed in every run: for the
    // empty message, look for a wrong key whose key stream starts with the byte that makes the
    // length prefix parse as 0 (expected after ~256 keys; the reference computes the candidates,
    // the LIBRARY confirms the witness)
    if len == 0 && content_is_random(content) {
        let ru = RPk::<C>::dec(&enc_pt(&ct.u));
        if let Some(ru) = ru {
            for t in 0..20_000u32 {
                let wk = gen::random_scalar(&mut rng);
                let first = refimpl::shake128_xor(&ru.mul(&wk).enc(), &ct.v[..1])[0];
                if first != 0 {
                    continue;
                }
                let lwk = sk_from_rs::<C>(&wk);
                if let Some((_, _, orig)) = probe::<C>(ctx, &ct, &lwk, &msg) {
                    ctx.count("no-key-confirmation/search-trials", t as u64 + 1);
                    ctx.expect(!orig, "C11/wrong-key-decrypts/no-key-confirmation(len<=2)", || {
                        let mut x = d("a different secret key returned the original (empty) message: the ciphertext carries no key confirmation");
                        x["wrong_key"] = json!(hex::encode(wk.to_be_bytes()));
                        x["found_after_trials"] = json!(t + 1);
                        x
                    });
                    ctx.hit(&format!("{n}/{sn}/wrong-key"), &[b"directed", &ctb]);
                }
                break;
            }
        }
    }
}

fn content_is_random(c: Content) -> bool {
    matches!(c, Content::Random)
}

/// One key, one wrong key, one message: the ciphertext of every scheme and its altered copies
/// (each scheme label, u+G, one payload byte changed, payload truncated, w+G) through is_valid,
/// decrypt, the decryption-key path and decrypt under the wrong key, asked in ordered pairs as
/// a, b, b, a (all pairs among the copies of one ciphertext, sampled pairs across ciphertexts).
fn history_cluster<C: Suite>(ctx: &mut Ctx, g: u64, i: usize) {
    use super::history::{family_pairs, q, sandwich_pairs, Q};
    let mut rng = ctx.rng(g);
    let n = C::NAME;
    let k = gen::random_scalar(&mut rng);
    let sk = sk_from_rs::<C>(&k);
    let wrong = sk_from_rs::<C>(&gen::random_scalar(&mut rng));
    let pk = sk.public_key();
    let msg = gen::message([24usize, 3, 33, 130, 8][i % 5], Content::Random, &mut rng); // >= 3 bytes: below that a wrong key can return the original by chance (known finding D11)
    type A = Option<Vec<u8>>;
    let verdict = |b: bool| -> A { Some(vec![b as u8]) };
    let mut qs: Vec<Q<A>> = Vec::new();
    let (skr, wr) = (&sk, &wrong);
    for s1 in SCHEMES {
        let ct = pk.sign_crypt(lscheme(s1), &msg);
        let mut copies: Vec<(String, bool, SignCryptCiphertext<C>)> = Vec::new();
        for s2 in SCHEMES {
            let mut c = ct.clone();
            c.scheme = lscheme(s2);
            copies.push((format!("label-{}", s2.name()), s1 == s2, c));
        }
        let mut c = ct.clone();
        c.u += <PkPt<C> as Group>::generator();
        copies.push(("u+G".into(), false, c));
        let mut c = ct.clone();
        c.w += <SigPt<C> as Group>::generator();
        copies.push(("w+G".into(), false, c));
        let mut c = ct.clone();
        let last = c.v.len() - 1;
        c.v[last] ^= 1;
        copies.push(("v-last-bit".into(), false, c));
        let mut c = ct.clone();
        c.v.pop();
        copies.push(("v-truncated".into(), false, c));
        for (vn, honest, c) in copies {
            let fam = format!("sealed-{}", s1.name());
            let (c1, c2, c3, c4) = (c.clone(), c.clone(), c.clone(), c);
            let plain: A = if honest { Some(msg.clone()) } else { None };
            qs.push(q(format!("{fam}/{vn}/is_valid"), verdict(honest), move || verdict(bool::from(c1.is_valid()))));
            qs.push(q(format!("{fam}/{vn}/decrypt"), plain.clone(), move || ct_some(c2.decrypt(skr))));
            qs.push(q(format!("{fam}/{vn}/decryption-key"), plain.clone(), move || ct_some(skr.sign_decryption_key::<&[u8]>(&c3).decrypt(&c3))));
            // under the wrong key the original message never comes back
            let m4 = msg.clone();
            qs.push(q(format!("{fam}/{vn}/wrong-key-returns-original"), verdict(false), move || verdict(ct_some(c4.decrypt(wr)).as_deref() == Some(&m4[..]))));
        }
    }
    let pairs = family_pairs(&qs, ctx.tier.pick(200, 800), &mut rng);
    let d = || json!({"suite":n,"sk":hex::encode(k.to_be_bytes()),"msg":hx(&msg),"note":"verdicts answer [1]/[0]; decrypt questions answer the plaintext or null"});
    let mut cid = k.to_be_bytes().to_vec();
    cid.extend_from_slice(&msg);
    sandwich_pairs(ctx, "C11", &format!("{n}/history"), "ciphertext-copies", &cid, &d, &qs, &pairs);
}
