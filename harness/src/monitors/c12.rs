//! C12 - threshold signcryption decryption: shares verify, and t of them decrypt.

use crate::gen::{self, Content};
use crate::refimpl::{self, Scheme, RC, RG, SCHEMES};
use crate::suite::*;
use crate::{for_both, hx, Ctx, Tier};
use blsful::*;
use serde_json::json;

pub const RULE: &str = "EXHAUSTIVE (t,n) for n<=4 (quick) / n<=5 (thorough) x every subset of every size x 3 ciphertext schemes x 2 groups, plus (2,9),(5,9),(2,255) - the latter also recombined from its 10 highest identifiers (both orders), its 21 lowest and 9 around 128 - and in the thorough tier (255,255),(16,32) with subsets of size t-1,t,n. Per split: every participant's decryption share must verify against its own public-key share and the ciphertext (all 3 schemes are required cells); mismatch matrix share i x key-share j x {same ciphertext, another ciphertext to the same key, same (u,v,w) under another scheme label}; decrypt_with_shares(subset) and SignCryptDecryptionKey::from_shares(subset).decrypt(ct): >=t distinct shares must return the message, <t must not; the reference interpolates u*sk from the decryption-share BYTES and opens the ciphertext. History clusters (1 quick / 6 thorough per group): for one 2-of-3 split the ciphertext of every scheme, its relabelled copies and a second ciphertext; each participant's share against its own and a foreign key share and each copy, decrypt_with_shares and the decryption key from shares on each copy, asked in ordered pairs (a,b) as a,b,b,a; every answer must equal the answer the question has on its own. Distinct by (suite,scheme,t,n,subset,path).";

pub fn run(ctx: &mut Ctx) {
    for_both!(run_suite, ctx);
}

fn run_suite<C: Suite>(ctx: &mut Ctx) {
    let base: u64 = if C::NAME == "G1Impl" { 0 } else { 1 << 32 };
    let n = C::NAME;
    let mut g = base;
    let nmax = ctx.tier.pick(4usize, 5);
    let mut idx = 0usize;
    for scheme in SCHEMES {
        let sn = scheme.name();
        for c in ["share-own", "share-other-participant", "share-other-ciphertext", "share-other-scheme", "decrypt/>=t", "decrypt/<t", "key/>=t", "key/<t", "reference-open"] {
            ctx.require(&format!("{n}/{sn}/{c}"));
        }
        for nn in 2..=nmax {
            for t in 2..=nn {
                g += 1;
                idx += 1;
                if ctx.mine(g) {
                    one::<C>(ctx, g, scheme, t, nn, true, idx);
                }
            }
        }
        // (2,255): the largest identifier a share can carry takes part in every quick run
        let mut extra = vec![(2usize, 9usize), (5, 9), (2, 255)];
        if ctx.tier == Tier::Thorough {
            extra.extend([(255, 255), (16, 32)]);
        }
        for (t, nn) in extra {
            g += 1;
            idx += 1;
            if ctx.mine(g) {
                one::<C>(ctx, g, scheme, t, nn, false, idx);
            }
        }
    }
    g += 1;
    if ctx.mine(g) {
        directed::<C>(ctx, g);
    }
    ctx.require(&format!("{n}/history"));
    for i in 0..ctx.tier.pick(1, 6) {
        g += 1;
        if ctx.mine(g) {
            history_cluster::<C>(ctx, g, i);
        }
    }
    let s = format!("every (t,n) with n<={nmax} and every subset of every size, per scheme and group");
    if !ctx.exhaustive.contains(&s) {
        ctx.exhaustive.push(s);
    }
}

fn one<C: Suite>(ctx: &mut Ctx, g: u64, scheme: Scheme, t: usize, nn: usize, exhaustive: bool, idx: usize) {
    let mut rng = ctx.rng(g);
    let n = C::NAME;
    let sn = scheme.name();
    let k = gen::key_for(g, &mut rng); // every fourth case: an edge scalar
    let sk = sk_from_rs::<C>(&k);
    let pk = sk.public_key();
    let len = gen::LENGTHS_SMALL[idx % gen::LENGTHS_SMALL.len()];
    let msg = gen::message(len, Content::Random, &mut rng);
    let shares = sk.split(t, nn).expect("split");
    let pks: Vec<PublicKeyShare<C>> = shares.iter().map(|s| s.public_key().expect("pk share")).collect();
    let ct = pk.sign_crypt(lscheme(scheme), &msg);
    let ct_other = pk.sign_crypt(lscheme(scheme), &msg);
    let ctb = Vec::from(&ct);
    let d = |what: &str| json!({"what":what,"suite":n,"scheme":sn,"t":t,"n":nn,"sk":hex::encode(k.to_be_bytes()),"msg":hx(&msg),"ct":hx(&ctb)});
    if !(bool::from(ct.is_valid()) && ct_some(ct.decrypt(&sk)).as_deref() == Some(&msg[..])) {
        ctx.count("vacuous", 1);
        return;
    }
    let ds: Vec<SignDecryptionShare<C>> = match shares.iter().map(|s| ct.create_decryption_share(s)).collect::<Result<Vec<_>, _>>() {
        Ok(v) => v,
        Err(e) => {
            ctx.violation(&format!("C12/create-share-failed/{n}/{sn}"), json!({"err":e.to_string()}));
            return;
        }
    };
    // shares verify against own key share and ciphertext; fail otherwise
    let m = nn.min(5);
    let mut idxs: Vec<usize> = (0..m).collect();
    if nn > m {
        idxs.push(nn - 1); // the participant with the largest identifier
    }
    for i in idxs.clone() {
        let own = ctx.guard("SignDecryptionShare::verify", || d("verify"), || ds[i].verify(&pks[i], &ct).is_ok());
        let Some(own) = own else { continue };
        ctx.expect(own, &format!("C12/honest-share-rejected/{n}/{sn}"), || {
            let mut x = d("an honest decryption share is rejected by its own public-key share and ciphertext");
            x["participant"] = json!(i);
            x
        });
        ctx.hit(&format!("{n}/{sn}/share-own"), &[&ctb, &[i as u8]]);
        if !own {
            continue; // negative cases below would be vacuous
        }
        for j in idxs.clone() {
            if i == j {
                continue;
            }
            let got = ds[i].verify(&pks[j], &ct).is_ok();
            ctx.expect(!got, &format!("C12/share-accepted-foreign-participant/{n}/{sn}"), || {
                let mut x = d("a decryption share verifies against another participant's public-key share");
                x["share"] = json!(i);
                x["key_share"] = json!(j);
                x
            });
            ctx.hit(&format!("{n}/{sn}/share-other-participant"), &[&ctb, &[i as u8, j as u8]]);
        }
        let got = ds[i].verify(&pks[i], &ct_other).is_ok();
        ctx.expect(!got, &format!("C12/share-accepted-foreign-ciphertext/{n}/{sn}"), || d("a decryption share verifies against another ciphertext"));
        ctx.hit(&format!("{n}/{sn}/share-other-ciphertext"), &[&ctb, &[i as u8]]);
        for o in scheme.others() {
            let mut re = ct.clone();
            re.scheme = lscheme(o);
            let got = ds[i].verify(&pks[i], &re).is_ok();
            ctx.expect(!got, &format!("C12/share-accepted-foreign-scheme/{n}/{sn}->{}", o.name()), || d("a decryption share verifies against the ciphertext under another scheme label"));
            ctx.hit(&format!("{n}/{sn}/share-other-scheme"), &[&ctb, &[i as u8, o.wire()]]);
        }
    }
    // reference: interpolate u*sk from the first t share bytes and open
    {
        let pts: Option<Vec<(u8, RPk<C>)>> = ds.iter().take(t).map(|s| { let v = Vec::from(s); RPk::<C>::dec(&v[1..]).map(|p| (v[0], p)) }).collect();
        let ua = pts.and_then(|p| refimpl::interpolate_points(&p));
        let (ru, rw) = (RPk::<C>::dec(&enc_pt(&ct.u)), RSig::<C>::dec(&enc_pt(&ct.w)));
        let opened = match (ua, ru, rw) {
            (Some(ua), Some(u), Some(w)) => refimpl::signcrypt_open_with::<C::R>(ua, u, &ct.v, w, <C::R as RC>::dst(scheme)),
            _ => None,
        };
        ctx.expect(opened.as_deref() == Some(&msg[..]), &format!("C12/reference-cannot-open/{n}/{sn}"), || d("reference interpolation of t decryption shares does not open the ciphertext"));
        ctx.hit(&format!("{n}/{sn}/reference-open"), &[&ctb]);
    }
    // subsets
    let subsets: Vec<Vec<usize>> = if exhaustive {
        gen::subsets(nn).collect()
    } else {
        let mut v = vec![vec![], vec![0]];
        for size in [t - 1, t, nn] {
            let mut all: Vec<usize> = (0..nn).collect();
            gen::shuffle(&mut all, &mut rng);
            v.push(all.into_iter().take(size).collect());
        }
        // the participants with the smallest and the largest identifier together
        v.push(vec![nn - 1, 0]);
        // many shares with large identifiers (the product of identifiers passes 64 bits), in both
        // orders; many small ones; a run around 128
        if nn >= 255 && t <= 9 {
            v.push((nn - 10..nn).collect());
            v.push((nn - 10..nn).rev().collect());
            v.push((0..21).collect());
            v.push((124..133).collect());
        }
        if t <= 3 && nn >= 3 {
            v.push(vec![nn - 2, nn - 1, 0]);
        }
        v
    };
    for sub in subsets {
        let mut ord = sub.clone();
        if sub.len() > 2 && gen::below(&mut rng, 2) == 1 {
            gen::shuffle(&mut ord, &mut rng);
        } else if sub.len() == 2 && gen::below(&mut rng, 2) == 1 {
            ord.reverse();
        }
        let sel: Vec<SignDecryptionShare<C>> = ord.iter().map(|i| ds[*i].clone()).collect();
        let enough = ord.len() >= t;
        let cls = if enough { ">=t" } else { "<t" };
        let fpd: Vec<u8> = ord.iter().map(|i| *i as u8).collect();
        let dd = |what: &str| { let mut x = d(what); x["subset"] = json!(ord); x };
        if let Some(r) = ctx.guard("SignCryptCiphertext::decrypt_with_shares", || dd("call"), || ct_some(ct.decrypt_with_shares(&sel))) {
            if enough {
                ctx.expect(r.as_deref() == Some(&msg[..]), &format!("C12/threshold-decrypt-failed/{n}/{sn}/decrypt_with_shares"), || dd("t or more shares do not decrypt"));
            } else {
                // no key confirmation (see C11): a wrong combined point returns the original
                // message with probability ~256^-(1+len); observable only for len <= 2
                let sig = if msg.len() <= 2 { "C12/too-few-decrypt/no-key-confirmation(len<=2)".to_string() } else { format!("C12/too-few-decrypt/{n}/{sn}/decrypt_with_shares") };
                ctx.expect(r.as_deref() != Some(&msg[..]), &sig, || dd("fewer than t shares return the original message"));
            }
            ctx.hit(&format!("{n}/{sn}/decrypt/{cls}"), &[&ctb, &fpd]);
        }
        if let Some(r) = ctx.guard("SignCryptDecryptionKey::from_shares", || dd("call"), || SignCryptDecryptionKey::<C>::from_shares(&sel)) {
            let out = r.ok().and_then(|k| ctx.guard("SignCryptDecryptionKey::decrypt", || dd("call"), || ct_some(k.decrypt(&ct))).flatten());
            if enough {
                ctx.expect(out.as_deref() == Some(&msg[..]), &format!("C12/threshold-decrypt-failed/{n}/{sn}/decryption-key"), || dd("a key combined from t or more shares does not decrypt"));
            } else {
                let sig = if msg.len() <= 2 { "C12/too-few-decrypt/no-key-confirmation(len<=2)".to_string() } else { format!("C12/too-few-decrypt/{n}/{sn}/decryption-key") };
                ctx.expect(out.as_deref() != Some(&msg[..]), &sig, || dd("a key combined from fewer than t shares returns the original message"));
            }
            ctx.hit(&format!("{n}/{sn}/key/{cls}"), &[&ctb, &fpd]);
        }
    }
    ctx.sample(&format!("{n}/{sn}/decrypt/>=t"), || d("threshold decryption"));
}

/// Directed search for the recorded known finding "no key confirmation": for the EMPTY message,
/// two shares of a fresh 3-of-3 split give a wrong combined point; re-split until the wrong key
/// stream happens to start with the byte that parses as length 0 (expected after ~256 splits).
/// The reference computes the candidates, the LIBRARY confirms the witness.
fn directed<C: Suite>(ctx: &mut Ctx, g: u64) {
    let mut rng = ctx.rng(g);
    let n = C::NAME;
    let k = gen::random_scalar(&mut rng);
    let sk = sk_from_rs::<C>(&k);
    let pk = sk.public_key();
    let msg: Vec<u8> = vec![];
    let ct = pk.sign_crypt(SignatureSchemes::Basic, &msg);
    let Some(ru) = RPk::<C>::dec(&enc_pt(&ct.u)) else { return };
    for tries in 0..20_000u32 {
        let sh = sk.split(3, 3).expect("split");
        let parts: Vec<(u8, refimpl::RS)> = sh.iter().take(2).map(|s| crate::monitors::util::sk_share_parts::<C>(s)).collect();
        let Some(wrong) = refimpl::interpolate_scalars(&parts) else { continue };
        if refimpl::shake128_xor(&ru.mul(&wrong).enc(), &ct.v[..1])[0] != 0 {
            continue;
        }
        let sel: Vec<SignDecryptionShare<C>> = sh.iter().take(2).filter_map(|s| ct.create_decryption_share(s).ok()).collect();
        let got = ct_some(ct.decrypt_with_shares(&sel));
        ctx.count("no-key-confirmation/search-trials", tries as u64 + 1);
        ctx.expect(got.as_deref() != Some(&msg[..]), "C12/too-few-decrypt/no-key-confirmation(len<=2)", || {
            json!({"what":"two shares of a 3-of-3 split returned the original (empty) message: the ciphertext carries no key confirmation","suite":n,"sk":hex::encode(k.to_be_bytes()),"ct":hx(&Vec::from(&ct)),"found_after_trials":tries + 1})
        });
        ctx.hit(&format!("{n}/Basic/decrypt/<t"), &[b"directed", &Vec::from(&ct)]);
        break;
    }
}

/// One 2-of-3 split and one message: the ciphertext of every scheme, its relabelled copies and a
/// second ciphertext; every participant's share against its own and a foreign key share and each
/// copy, and both threshold decryption paths on each copy - asked in ordered pairs as a, b, b, a
/// (all pairs among the questions about one ciphertext, sampled pairs across ciphertexts).
fn history_cluster<C: Suite>(ctx: &mut Ctx, g: u64, i: usize) {
    use super::history::{family_pairs, q, sandwich_pairs, Q};
    let mut rng = ctx.rng(g);
    let n = C::NAME;
    let k = gen::random_scalar(&mut rng);
    let sk = sk_from_rs::<C>(&k);
    let pk = sk.public_key();
    let msg = gen::message([24usize, 3, 33, 130, 8, 64][i % 6], Content::Random, &mut rng);
    let Ok(shares) = sk.split(2, 3) else { return };
    let Ok(pks) = shares.iter().map(|s| s.public_key()).collect::<Result<Vec<PublicKeyShare<C>>, _>>() else { return };
    type A = Option<Vec<u8>>;
    let verdict = |b: bool| -> A { Some(vec![b as u8]) };
    let mut qs: Vec<Q<A>> = Vec::new();
    let pksr = &pks;
    for s1 in SCHEMES {
        let ct = pk.sign_crypt(lscheme(s1), &msg);
        let Ok(ds) = shares.iter().map(|s| ct.create_decryption_share(s)).collect::<Result<Vec<SignDecryptionShare<C>>, _>>() else { return };
        let mut copies: Vec<(String, bool, SignCryptCiphertext<C>)> = Vec::new();
        for s2 in SCHEMES {
            let mut c = ct.clone();
            c.scheme = lscheme(s2);
            copies.push((format!("label-{}", s2.name()), s1 == s2, c));
        }
        copies.push(("another-ciphertext".into(), false, pk.sign_crypt(lscheme(s1), &msg)));
        let fam = format!("sealed-{}", s1.name());
        for (vn, honest, c) in copies {
            for p in 0..3usize {
                for kj in [p, (p + 1) % 3] {
                    let (share, cc) = (ds[p].clone(), c.clone());
                    qs.push(q(format!("{fam}/{vn}/share-{p}-against-key-share-{kj}"), verdict(honest && kj == p), move || verdict(share.verify(&pksr[kj], &cc).is_ok())));
                }
            }
            if vn == "another-ciphertext" {
                // shares of one ciphertext applied to another give an unrelated mask (no key
                // confirmation, see D11): what comes back is not specified, so it is not asked
                continue;
            }
            let two = vec![ds[0].clone(), ds[2].clone()];
            let (c1, c2, t1, t2) = (c.clone(), c, two.clone(), two);
            let plain: A = if honest { Some(msg.clone()) } else { None };
            // shares made for the ORIGINAL ciphertext, presented with the copy
            qs.push(q(format!("{fam}/{vn}/decrypt_with_shares"), plain.clone(), move || ct_some(c1.decrypt_with_shares(&t1))));
            qs.push(q(format!("{fam}/{vn}/decryption-key-from-shares"), plain.clone(), move || SignCryptDecryptionKey::<C>::from_shares(&t2).ok().and_then(|dk| ct_some(dk.decrypt(&c2)))));
        }
    }
    let pairs = family_pairs(&qs, ctx.tier.pick(200, 800), &mut rng);
    let d = || json!({"suite":n,"sk":hex::encode(k.to_be_bytes()),"msg":hx(&msg),"t":2,"n":3,"note":"verdicts answer [1]/[0]; decrypt questions answer the plaintext or null"});
    let mut cid = k.to_be_bytes().to_vec();
    cid.extend_from_slice(&msg);
    sandwich_pairs(ctx, "C12", &format!("{n}/history"), "shares-and-copies", &cid, &d, &qs, &pairs);
}
