//! C13 - time-lock ciphertexts open only with the signature over their identifier.

use crate::gen::{self, Content};
use crate::refimpl::{self, Scheme, RG, SCHEMES};
use crate::suite::*;
use crate::{for_both, hx, Ctx, Tier};
use blsful::inner_types::{Field, Group};
use blsful::*;
use serde_json::json;

pub const RULE: &str = "message lengths (as C11) x contents {random, all-zero, varint-like (0xff x 8, 0x01, .. at lengths 31, 100, 127, 16383); thorough: + all-0xff, counter} x identifiers {empty, 1 byte, 32 bytes, 1 KiB} x 3 schemes x 2 groups x fresh keys. Honest: decrypt with sk.sign(scheme,id) == msg; with Signature::from_shares over 2-of-3 and 3-of-5 splits (Basic/PoP) == msg; decode(encode(ct)) opens; the REFERENCE opens the library's ciphertext. Negative: signature over another identifier, by another key (independent, and the related keys -k, k+1, k-1, 2k, 1/k), under each other scheme (same id), identity signature, the signature point re-labelled -> None. Tamper (designated short-message ciphertext per cell: EXHAUSTIVE, others sampled): every single-bit flip of u (decode-or-None), v, and of the authenticated prefix w[0 .. prefix+len) -> None; flips and extensions inside the zero padding w[prefix+len ..] and truncations of w at every length -> original message or None, never another message. Distinct by (suite,scheme,variant,ciphertext bytes); non-trivial = ciphertext decodes and the final r*P == U test decides. History clusters (1 quick / 6 thorough per group): the ciphertext of every scheme and its copies (three labels, u+G, a bit of v) opened with the signature of every scheme over the identifier, a signature over another identifier and a foreign key's signature, asked in ordered pairs (a,b) as a,b,b,a; every answer must equal the answer the question has on its own. Crafted prefixes: ciphertexts sealed by the reference around payloads that start with extreme or malformed length prefixes (2^7-1 .. 2^64-10..2^64-1, 2^64, 19-byte numbers, 20 continuation bytes, non-canonical zero, declared length = available / available + 1), opened with the right signature under the abort monitor: the result must be nothing or exactly the message the payload denotes.";

pub fn run(ctx: &mut Ctx) {
    for_both!(run_suite, ctx);
}

fn lengths(t: Tier) -> Vec<usize> {
    let mut v: Vec<usize> = Vec::new();
    match t {
        Tier::Quick => {
            v.extend((0..=40).step_by(4));
            v.extend([5, 30, 31, 32, 33, 100, 127, 128, 129]);
        }
        Tier::Thorough => {
            v.extend(0..=40);
            v.extend(100..=140);
        }
    }
    // lengths at which (48- or 96-byte point || payload) and (32-byte seed || payload) cross 256 bytes
    match t {
        Tier::Quick => v.extend([159usize, 160, 176, 191, 207, 208, 223, 224, 225]),
        Tier::Thorough => v.extend(150..=230),
    }
    v.extend([16383, 16384, 16385, 65535, 65536]);
    v.sort_unstable();
    v.dedup();
    v
}

fn run_suite<C: Suite>(ctx: &mut Ctx) {
    let base: u64 = if C::NAME == "G1Impl" { 0 } else { 1 << 32 };
    let n = C::NAME;
    let mut g = base;
    for scheme in SCHEMES {
        let sn = scheme.name();
        for c in ["honest", "wrong-id", "wrong-key", "wrong-scheme", "identity-sig", "flip-u", "flip-v", "flip-w-auth", "padding", "truncate-w", "extend-w", "reference-open"] {
            ctx.require(&format!("{n}/{sn}/{c}"));
        }
        if scheme != Scheme::Aug {
            ctx.require(&format!("{n}/{sn}/honest-from-shares"));
        }
        // contents: random, and all-zero (leading 0x00 bytes next to the length prefix, trailing
        // 0x00 bytes next to the padding); thorough adds all-0xff and a counter
        let contents: &[Content] = ctx.tier.pick(&[Content::Random, Content::Zero, Content::VarintLike][..], &[Content::Zero, Content::Ones, Content::Counter, Content::Random, Content::VarintLike][..]);
        for (li, len) in lengths(ctx.tier).into_iter().enumerate() {
            for &content in contents {
                if len == 0 && !matches!(content, Content::Random) {
                    continue;
                }
                // the varint-like content only where a one-bit change of the prefix makes it run on
                // into the message (prefix bytes with the top bit clear: 16..127, 2048..16383)
                if matches!(content, Content::VarintLike) && !([31usize, 100, 127, 16383].contains(&len)) {
                    continue;
                }
                g += 1;
                if !ctx.mine(g) {
                    continue;
                }
                let exhaustive = matches!(content, Content::Random) && (len == 5 || (ctx.tier == Tier::Thorough && (len == 0 || len == 30)));
                one::<C>(ctx, g, scheme, len, li, exhaustive, content);
            }
        }
    }
    // crafted length prefixes under a valid time-lock header (what a change of the payload bytes
    // covering the length prefix can turn into, taken to the extremes)
    ctx.require(&format!("{n}/crafted-prefix"));
    g += 1;
    if ctx.mine(g) {
        crafted_prefixes::<C>(ctx, g);
    }
    ctx.require(&format!("{n}/history"));
    for i in 0..ctx.tier.pick(1, 6) {
        g += 1;
        if ctx.mine(g) {
            history_cluster::<C>(ctx, g, i);
        }
    }
    let s = "single-bit flips of u, v and w of the designated short-message ciphertext(s), and every truncation length of w".to_string();
    if !ctx.exhaustive.contains(&s) {
        ctx.exhaustive.push(s);
    }
}

fn one<C: Suite>(ctx: &mut Ctx, g: u64, scheme: Scheme, len: usize, li: usize, exhaustive: bool, content: Content) {
    let mut rng = ctx.rng(g);
    let n = C::NAME;
    let sn = scheme.name();
    let ls_ = lscheme(scheme);
    let msg = gen::message(len, content, &mut rng);
    let id = gen::message([8usize, 0, 1, 32, 1024][li % 5], Content::Random, &mut rng);
    let k = gen::key_for(g, &mut rng); // every fourth case: an edge scalar
    let sk = sk_from_rs::<C>(&k);
    let pk = sk.public_key();
    let ct = match ctx.guard("PublicKey::encrypt_time_lock", || json!({"len":len}), || pk.encrypt_time_lock(ls_, &msg, &id)) {
        Some(Ok(c)) => c,
        Some(Err(e)) => {
            ctx.violation(&format!("C13/seal-failed/{n}/{sn}"), json!({"err":e.to_string()}));
            return;
        }
        None => return,
    };
    let ctb = Vec::from(&ct);
    let d = |what: &str| json!({"what":what,"suite":n,"scheme":sn,"sk":hex::encode(k.to_be_bytes()),"msg":hx(&msg),"msg_len":len,"id":hx(&id),"ct":hx(&ctb)});
    let sig = sk.sign(ls_, &id).expect("sign id");
    let open = |ctx: &mut Ctx, c: &TimeCryptCiphertext<C>, s: &Signature<C>| -> Option<Option<Vec<u8>>> {
        ctx.guard("TimeCryptCiphertext::decrypt", || json!({"ct":hx(&Vec::from(c))}), || ct_some(c.decrypt(s)))
    };

    // ---------------- honest
    let Some(p) = open(ctx, &ct, &sig) else { return };
    let honest_ok = p.as_deref() == Some(&msg[..]);
    ctx.expect(honest_ok, &format!("C13/honest-open-failed/{n}/{sn}"), || d("the honest signature over the identifier does not open the ciphertext"));
    ctx.hit(&format!("{n}/{sn}/honest"), &[&ctb]);
    // framing
    ctx.expect(ct.w.len() == refimpl::frame(&msg).len(), &format!("C13/payload-length/{n}/{sn}"), || d("w length differs from LEB128(len)||msg padded to 32"));
    // reference opens the library ciphertext with a reference signature
    {
        let rsig = refimpl::sign::<C::R>(scheme, &k, &id);
        let ru = RPk::<C>::dec(&enc_pt(&ct.u));
        let ro = ru.and_then(|u| refimpl::timelock_open::<C::R>(rsig, u, &ct.v, &ct.w));
        ctx.expect(ro.as_deref() == Some(&msg[..]) || !honest_ok, &format!("C13/reference-cannot-open/{n}/{sn}"), || d("the reference implementation does not open the library's ciphertext"));
        ctx.hit(&format!("{n}/{sn}/reference-open"), &[&ctb]);
    }
    if !honest_ok {
        return;
    }
    // wire round trip
    let back = TimeCryptCiphertext::<C>::try_from(ctb.as_slice());
    ctx.expect(matches!(&back, Ok(b) if *b == ct && ct_some(b.decrypt(&sig)).as_deref() == Some(&msg[..])), &format!("C13/wire-roundtrip/{n}/{sn}"), || d("decode(encode(ct)) differs or no longer opens"));
    // signature recombined from threshold shares
    if scheme != Scheme::Aug {
        for (t, nn) in [(2usize, 3usize), (3, 5)] {
            let shares = sk.split(t, nn).expect("split");
            let mut part: Vec<SignatureShare<C>> = shares.iter().map(|s| s.sign(ls_, &id).expect("partial")).collect();
            gen::shuffle(&mut part, &mut rng);
            part.truncate(t);
            let s2 = match Signature::<C>::from_shares(&part) {
                Ok(s2) => s2,
                Err(e) => {
                    ctx.violation(&format!("C13/share-recombined-open-failed/{n}/{sn}"), { let mut x = d("t signature shares over the identifier do not recombine"); x["error"] = json!(e.to_string()); x });
                    continue;
                }
            };
            let Some(p) = open(ctx, &ct, &s2) else { continue };
            ctx.expect(p.as_deref() == Some(&msg[..]), &format!("C13/share-recombined-open-failed/{n}/{sn}"), || d("a signature recombined from threshold shares does not open the ciphertext"));
            ctx.hit(&format!("{n}/{sn}/honest-from-shares"), &[&ctb, &[t as u8, nn as u8]]);
        }
    }
    ctx.sample(&format!("{n}/{sn}/honest"), || d("opens with whole-key and share-recombined signature; reference opens"));

    // ---------------- wrong signatures
    let must_none = |ctx: &mut Ctx, cell: &str, vn: &str, s: &Signature<C>| {
        let Some(p) = open(ctx, &ct, s) else { return };
        ctx.expect(p.is_none(), &format!("C13/opened-with-wrong-signature/{n}/{sn}/{cell}"), || {
            let mut x = d("the ciphertext opens with a signature that is not the key's signature over its identifier under its scheme");
            x["variant"] = json!(vn);
            x["returned"] = json!(p.as_ref().map(|m| hx(m)));
            x
        });
        ctx.hit(&format!("{n}/{sn}/{cell}"), &[vn.as_bytes(), &ctb]);
    };
    let mut id2 = id.clone();
    id2.push(0);
    must_none(ctx, "wrong-id", "id extended", &sk.sign(ls_, &id2).unwrap());
    if !id.is_empty() {
        must_none(ctx, "wrong-id", "id bit flipped", &sk.sign(ls_, &gen::flip_bit(&id, 0)).unwrap());
        must_none(ctx, "wrong-id", "empty id", &sk.sign(ls_, b"").unwrap());
    }
    if msg != id {
        must_none(ctx, "wrong-id", "signature over the message", &sk.sign(ls_, &msg).unwrap());
    }
    let other = sk_from_rs::<C>(&gen::random_scalar(&mut rng));
    must_none(ctx, "wrong-key", "other key", &other.sign(ls_, &id).unwrap());
    // keys algebraically related to the right one
    {
        use crate::refimpl::RS;
        let inv: Option<RS> = Option::from(k.invert());
        for (rn, rk) in [("-k", -k), ("k+1", k + RS::ONE), ("k-1", k - RS::ONE), ("2k", k + k), ("1/k", inv.unwrap_or(RS::ONE))] {
            if rk != k && !bool::from(rk.is_zero()) {
                must_none(ctx, "wrong-key", &format!("signature by the related key {rn}"), &sk_from_rs::<C>(&rk).sign(ls_, &id).unwrap());
            }
        }
    }
    for o in scheme.others() {
        must_none(ctx, "wrong-scheme", &format!("honest {} signature over id", o.name()), &sk.sign(lscheme(o), &id).unwrap());
        must_none(ctx, "wrong-scheme", &format!("own point labelled {}", o.name()), &wrap_sig::<C>(o, *sig.as_raw_value()));
    }
    must_none(ctx, "identity-sig", "identity", &wrap_sig::<C>(scheme, sig_id::<C>()));
    // ... and a ciphertext BUILT to open under the identity signature: with sig = O the pairing
    // value is the constant 1 of the target group, so anyone can seal around it; only the refusal
    // of the identity signature keeps it closed
    {
        use blsful::inner_types::GroupEncoding;
        let gt_one = <<C as Pairing>::PairingResult as Group>::identity().to_bytes();
        let alpha = gen::random_scalar(&mut rng);
        let crafted = refimpl::timelock_seal_with_k::<C::R>(gt_one.as_ref(), &msg, &alpha);
        let c = TimeCryptCiphertext::<C> { u: super::util::lp::<C>(crafted.u), v: crafted.v, w: crafted.w.clone(), scheme: ls_ };
        let o_sig = wrap_sig::<C>(scheme, sig_id::<C>());
        if let Some(p) = open(ctx, &c, &o_sig) {
            ctx.expect(p.is_none(), &format!("C13/altered-opens/{n}/{sn}/identity-sig"), || { let mut x = d("a ciphertext sealed around the pairing value 1 opens with the identity signature"); x["returned"] = json!(p.as_ref().map(|m| hx(m))); x });
            ctx.hit(&format!("{n}/{sn}/identity-sig"), &[b"crafted K=1", &ctb]);
        }
    }
    must_none(ctx, "wrong-key", "-sig", &wrap_sig::<C>(scheme, -*sig.as_raw_value()));
    must_none(ctx, "wrong-key", "sig+G", &wrap_sig::<C>(scheme, *sig.as_raw_value() + <SigPt<C> as Group>::generator()));

    // ---------------- tampering
    let (_, used) = refimpl::leb128_read(&refimpl::leb128(len as u128)).unwrap();
    let auth = used + len; // authenticated prefix of w
    let ulen = enc_pt(&ct.u).len();
    // u: flips on the byte encoding (decode-or-none)
    let ubits: Vec<usize> = if exhaustive { (0..ulen * 8).collect() } else { (0..8).map(|_| gen::below(&mut rng, ulen * 8)).collect() };
    for b in ubits {
        let fb = gen::flip_bit(&ctb, b);
        match TimeCryptCiphertext::<C>::try_from(fb.as_slice()) {
            Err(_) => ctx.hit_trivial(&format!("{n}/{sn}/flip-u")),
            Ok(c2) => {
                let Some(p) = open(ctx, &c2, &sig) else { continue };
                ctx.expect(p.is_none(), &format!("C13/altered-opens/{n}/{sn}/u"), || { let mut x = d("a changed u still opens"); x["bit"] = json!(b); x });
                ctx.hit(&format!("{n}/{sn}/flip-u"), &[&fb]);
            }
        }
    }
    {
        // u replaced by other valid points
        for (vn, u2) in [("u+G", ct.u + <PkPt<C> as Group>::generator()), ("-u", -ct.u), ("2u", ct.u + ct.u)] {
            let mut c2 = ct.clone();
            c2.u = u2;
            let Some(p) = open(ctx, &c2, &sig) else { continue };
            ctx.expect(p.is_none(), &format!("C13/altered-opens/{n}/{sn}/u"), || { let mut x = d("a changed u still opens"); x["variant"] = json!(vn); x });
            ctx.hit(&format!("{n}/{sn}/flip-u"), &[vn.as_bytes(), &ctb]);
        }
    }
    // v: 256 bit positions
    let vbits: Vec<usize> = if exhaustive { (0..256).collect() } else { (0..ctx.tier.pick(8, 24)).map(|_| gen::below(&mut rng, 256)).collect() };
    for b in vbits {
        let mut c2 = ct.clone();
        c2.v[b / 8] ^= 1 << (b % 8);
        let Some(p) = open(ctx, &c2, &sig) else { continue };
        ctx.expect(p.is_none(), &format!("C13/altered-opens/{n}/{sn}/v"), || { let mut x = d("a changed v still opens"); x["bit"] = json!(b); x["returned"] = json!(p.as_ref().map(|m| hx(m))); x });
        ctx.hit(&format!("{n}/{sn}/flip-v"), &[&[b as u8], &ctb]);
    }
    // w: authenticated prefix -> none ; padding -> original or none
    let wbits_total = ct.w.len() * 8;
    let wbits: Vec<usize> = if exhaustive {
        (0..wbits_total).collect()
    } else {
        let mut v: Vec<usize> = (0..ctx.tier.pick(12, 32)).map(|_| gen::below(&mut rng, auth * 8)).collect();
        // every bit of the length prefix, always
        v.extend(0..used * 8);
        v.push(0);
        v.push(auth * 8 - 1);
        if auth * 8 < wbits_total {
            v.push(auth * 8);
            v.push(wbits_total - 1);
            v.push(auth * 8 + gen::below(&mut rng, wbits_total - auth * 8));
        }
        v
    };
    for b in wbits {
        let mut c2 = ct.clone();
        c2.w[b / 8] ^= 1 << (b % 8);
        let Some(p) = open(ctx, &c2, &sig) else { continue };
        if b / 8 < auth {
            ctx.expect(p.is_none(), &format!("C13/altered-opens/{n}/{sn}/w-authenticated"), || {
                let mut x = d("a change inside the length prefix or message bytes of w still yields a result");
                x["bit"] = json!(b);
                x["returned"] = json!(p.as_ref().map(|m| hx(m)));
                x
            });
            ctx.hit(&format!("{n}/{sn}/flip-w-auth"), &[&(b as u32).to_le_bytes(), &ctb]);
        } else {
            ctx.expect(p.is_none() || p.as_deref() == Some(&msg[..]), &format!("C13/different-message/{n}/{sn}/padding"), || {
                let mut x = d("a change in the padding yields a DIFFERENT message");
                x["bit"] = json!(b);
                x["returned"] = json!(p.as_ref().map(|m| hx(m)));
                x
            });
            ctx.hit(&format!("{n}/{sn}/padding"), &[&(b as u32).to_le_bytes(), &ctb]);
        }
    }
    if auth >= ct.w.len() {
        // no padding exists for this length; keep the cell meaningful through an extension
        ctx.count("no-padding-ciphertexts", 1);
    }
    // truncations of w
    let cuts: Vec<usize> = if exhaustive || ct.w.len() <= 40 {
        (0..ct.w.len()).collect()
    } else {
        vec![0, 1, used.saturating_sub(1), used, auth - 1, ct.w.len() - 1, gen::below(&mut rng, ct.w.len())]
    };
    for cut in cuts {
        let mut c2 = ct.clone();
        c2.w.truncate(cut);
        let Some(p) = open(ctx, &c2, &sig) else { continue };
        ctx.expect(p.is_none() || p.as_deref() == Some(&msg[..]), &format!("C13/different-message/{n}/{sn}/truncate"), || {
            let mut x = d("a truncated w yields a DIFFERENT message");
            x["kept"] = json!(cut);
            x["returned"] = json!(p.as_ref().map(|m| hx(m)));
            x
        });
        if cut < auth && len > 0 {
            // part of the message itself is missing: nothing may come back
            ctx.expect(p.is_none(), &format!("C13/altered-opens/{n}/{sn}/w-truncated"), || { let mut x = d("w cut inside the message still yields a result"); x["kept"] = json!(cut); x });
        }
        ctx.hit(&format!("{n}/{sn}/truncate-w"), &[&(cut as u32).to_le_bytes(), &ctb]);
    }
    // extensions of w
    for (vn, ext) in [("+00", vec![0u8]), ("+ff", vec![0xff]), ("+32 random", gen::random_bytes(32, &mut rng))] {
        let mut c2 = ct.clone();
        c2.w.extend_from_slice(&ext);
        let Some(p) = open(ctx, &c2, &sig) else { continue };
        ctx.expect(p.is_none() || p.as_deref() == Some(&msg[..]), &format!("C13/different-message/{n}/{sn}/extend"), || {
            let mut x = d("an extended w yields a DIFFERENT message");
            x["variant"] = json!(vn);
            x
        });
        ctx.hit(&format!("{n}/{sn}/extend-w"), &[vn.as_bytes(), &ctb]);
        ctx.hit(&format!("{n}/{sn}/padding"), &[vn.as_bytes(), &ctb]);
    }
    if exhaustive {
        ctx.count("exhaustive_tamper_ciphertexts", 1);
    }
}

/// One key, one foreign key, one message, two identifiers: the ciphertext of every scheme and its
/// copies (each label, u+G, a bit of v) opened with the signature of every scheme over the
/// identifier, a signature over another identifier and a foreign key's signature - asked in
/// ordered pairs as a, b, b, a (all pairs among the questions about one ciphertext, sampled pairs
/// across ciphertexts). Only (original copy, same scheme's signature over the identifier) opens.
fn history_cluster<C: Suite>(ctx: &mut Ctx, g: u64, i: usize) {
    use super::history::{family_pairs, q, sandwich_pairs, Q};
    let mut rng = ctx.rng(g);
    let n = C::NAME;
    let k = gen::random_scalar(&mut rng);
    let sk = sk_from_rs::<C>(&k);
    let foreign = sk_from_rs::<C>(&gen::random_scalar(&mut rng));
    let pk = sk.public_key();
    let msg = gen::message([24usize, 0, 33, 130, 1, 64][i % 6], Content::Random, &mut rng);
    let id = gen::message([8usize, 32, 0][i % 3], Content::Random, &mut rng);
    let mut id2 = id.clone();
    id2.push(1);
    type A = Option<Vec<u8>>;
    let mut qs: Vec<Q<A>> = Vec::new();
    for s1 in SCHEMES {
        let Ok(ct) = pk.encrypt_time_lock(lscheme(s1), &msg, &id) else { return };
        let mut copies: Vec<(String, bool, TimeCryptCiphertext<C>)> = Vec::new();
        for s2 in SCHEMES {
            let mut c = ct.clone();
            c.scheme = lscheme(s2);
            copies.push((format!("label-{}", s2.name()), s1 == s2, c));
        }
        let mut c = ct.clone();
        c.u += <PkPt<C> as Group>::generator();
        copies.push(("u+G".into(), false, c));
        let mut c = ct.clone();
        c.v[0] ^= 1;
        copies.push(("v-bit".into(), false, c));
        let mut sigs: Vec<(String, bool, Signature<C>)> = Vec::new();
        for s3 in SCHEMES {
            let Ok(s) = sk.sign(lscheme(s3), &id) else { return };
            sigs.push((format!("signature-{}", s3.name()), s3 == s1, s));
        }
        let Ok(s) = sk.sign(lscheme(s1), &id2) else { return };
        sigs.push(("signature-over-another-identifier".into(), false, s));
        let Ok(s) = foreign.sign(lscheme(s1), &id) else { return };
        sigs.push(("signature-by-another-key".into(), false, s));
        let fam = format!("sealed-{}", s1.name());
        for (cn, c_ok, c) in &copies {
            for (sn, s_ok, sg) in &sigs {
                let (c, sg) = (c.clone(), *sg);
                let want: A = if *c_ok && *s_ok { Some(msg.clone()) } else { None };
                qs.push(q(format!("{fam}/{cn}/{sn}"), want, move || ct_some(c.decrypt(&sg))));
            }
        }
    }
    let pairs = family_pairs(&qs, ctx.tier.pick(200, 800), &mut rng);
    let d = || json!({"suite":n,"sk":hex::encode(k.to_be_bytes()),"msg":hx(&msg),"id":hx(&id),"note":"every question answers the plaintext or null"});
    let mut cid = k.to_be_bytes().to_vec();
    cid.extend_from_slice(&msg);
    sandwich_pairs(ctx, "C13", &format!("{n}/history"), "copies-and-signatures", &cid, &d, &qs, &pairs);
}

/// Ciphertexts sealed by the REFERENCE around payloads that start with an extreme or malformed
/// length prefix (2^7-1 .. 2^64-1, 2^64, 19-byte numbers, 20 continuation bytes, a non-canonical
/// zero; alone and followed by 40 bytes; declared length = available, available + 1), opened with
/// the right signature: the result must be nothing, or exactly the message the payload denotes.
fn crafted_prefixes<C: Suite>(ctx: &mut Ctx, g: u64) {
    use crate::refimpl::RC;
    let mut rng = ctx.rng(g);
    let n = C::NAME;
    let k = gen::random_scalar(&mut rng);
    let sk = sk_from_rs::<C>(&k);
    let pk = super::util::rpk_of::<C>(&sk.public_key());
    let mut frames: Vec<(String, Vec<u8>)> = Vec::new();
    for (vn, vb) in super::c17::hostile_varints() {
        let mut f = vb.clone();
        frames.push((format!("{vn}/alone"), f.clone()));
        f.extend_from_slice(&[0x42u8; 40]);
        frames.push((format!("{vn}/+40"), f));
    }
    for m in (0..10u64).map(|i| u64::MAX - i) {
        let mut f = refimpl::leb128(m as u128);
        f.extend_from_slice(&[0x17u8; 24]);
        frames.push((format!("2^64-{}", u64::MAX - m + 1), f));
    }
    for len in [1usize, 5, 32, 64] {
        let mut f = refimpl::leb128(len as u128 + 1);
        f.extend(vec![0x42u8; len]);
        frames.push((format!("declared>available/{len}"), f));
        let mut f = refimpl::leb128(len as u128);
        f.extend(vec![0x42u8; len]);
        frames.push((format!("declared==available/{len}"), f));
    }
    for s in SCHEMES {
        let dst = <C::R as RC>::dst(s);
        for (fname, frame) in &frames {
            let id = b"crafted-prefix-id".to_vec();
            let idh: Vec<u8> = if s == Scheme::Aug { let mut m = pk_bytes(&sk.public_key()); m.extend_from_slice(&id); m } else { id.clone() };
            let alpha = gen::random_scalar(&mut rng);
            let denotes = refimpl::unframe(frame);
            let guess = denotes.clone().unwrap_or_default();
            let tl = refimpl::timelock_seal_frame::<C::R>(pk, frame, &guess, &idh, dst, &alpha);
            let t = TimeCryptCiphertext::<C> { u: super::util::lp::<C>(tl.u), v: tl.v, w: tl.w.clone(), scheme: lscheme(s) };
            let sig = wrap_sig::<C>(s, super::util::ls::<C>(refimpl::core_sign::<C::R>(&k, &idh, dst)));
            let d = || json!({"what":"time-lock ciphertext sealed by the reference around a payload with a crafted length prefix","frame":fname,"frame_bytes":hx(frame),"scheme":s.name(),"suite":n});
            let Some(p) = ctx.guard("TimeCryptCiphertext::decrypt", d, || ct_some(t.decrypt(&sig))) else { continue };
            let ok = p.is_none() || (denotes.is_some() && p == denotes);
            ctx.expect(ok, &format!("C13/crafted-prefix-yields-other-message/{n}/{}", s.name()), || { let mut x = d(); x["returned"] = json!(p.as_ref().map(|m| hx(m))); x["payload_denotes"] = json!(denotes.as_ref().map(|m| hx(m))); x });
            ctx.hit(&format!("{n}/crafted-prefix"), &[fname.as_bytes(), &[s.wire()]]);
        }
    }
}
