//! C14 - ElGamal: correct, additively homomorphic, proofs bind ciphertext and key.

use super::util::*;
use crate::gen;
use crate::refimpl::{self, RElGamalProof, RG, RS};
use crate::suite::*;
use crate::{for_both, Ctx};
use blsful::inner_types::{Field, Group};
use blsful::*;
use serde_json::json;

pub const RULE: &str = "recipient keys (random, every fourth an edge scalar; plus every edge scalar 1, 2, 3, r-1, ... once as recipient with and without proof) x plaintext scalars from E (1,2,3,r-1,r-2,2^254,...,random) and at word / limb boundaries (255, 2^32-1, 2^32, 2^63-1, 2^63, 2^63+1, 2^64-1, 2^64, 2^128, 2^248, 2^253 in the quick tier; 2^k-1, 2^k, 2^k+1 for 17 values of k in the thorough tier) x 2 groups: decrypt(sk) must equal m*H where H is recomputed by the reference as hash_to_curve(compress(P), ENC_DST) in the key group; the library's message_generator() must equal the reference's bytes. Sums of k in {2,3,16} ciphertexts through every Add / AddAssign impl (6) must decrypt to (sum m_i)*H, for five plaintext patterns: random, wrapping around r, cancelling to zero (the sum decrypts to the identity), 1 + (r-1) + cancelling rest, summing to one. All workloads run in the release and in the checked (debug assertions + overflow checks) build. Decryption shares built with the public public_key_share_with_generator(share, c1) for every (t,n) with n<=4 (quick) / n<=5 (thorough): every subset in ascending, reversed and shuffled order; >=t must decrypt to m*H via ElGamalDecryptionKey::from_shares, <t must not; plus 2-of-255 and 5-of-255 splits recombined from the 10 highest identifiers (both orders), the 21 lowest, 9 around 128 and all 255. Proofs: verify(pk), verify_and_decrypt(sk)==m*H, the reference verifier accepts the library's proof and reproduces its challenge from the merlin transcript, the library accepts a reference-built proof; perturbations that must be rejected: c1+G, c2+G, c1<->c2, each of the 3 scalars +1, challenge of another proof, ciphertext of another proof, other pk, -pk, pk+G; verify_and_decrypt with a non-matching key. History clusters (2 quick / 32 thorough per group): two proofs for one recipient and six single-component variants through verify / verify under another key / verify_and_decrypt / verify_and_decrypt with another key, plus decrypt, asked in every ordered pair (a,b) as a,b,b,a; every answer must equal the answer the question has on its own. Distinct by (suite,kind,inputs).";

pub fn run(ctx: &mut Ctx) {
    for_both!(run_suite, ctx);
}

fn run_suite<C: Suite>(ctx: &mut Ctx) {
    let base: u64 = if C::NAME == "G1Impl" { 0 } else { 1 << 32 };
    let n = C::NAME;
    let mut g = base;
    for c in ["generator", "decrypt", "sum", "shares/>=t", "shares/<t", "proof/honest", "proof/reference-accepts", "proof/library-accepts-reference", "proof/perturbed", "proof/wrong-key"] {
        ctx.require(&format!("{n}/{c}"));
    }
    g += 1;
    if ctx.mine(g) {
        let lib = enc_pt(&<C as BlsElGamal>::message_generator());
        let r = refimpl::elgamal_generator::<C::R>().enc();
        ctx.expect(lib == r, &format!("C14/generator/{n}"), || json!({"what":"message generator differs from hash_to_curve(compress(P), ENC_DST)","lib":hex::encode(&lib),"ref":hex::encode(&r)}));
        ctx.hit(&format!("{n}/generator"), &[&lib]);
        ctx.hit(&format!("{n}/generator"), &[&r, b"ref"]);
    }
    let reps = ctx.tier.pick(1, 24);
    let mut erng = ctx.rng_l(base, "edges");
    let mut edges: Vec<(String, RS)> = gen::edge_scalars(&mut erng).into_iter().map(|(a, b)| (a.to_string(), b)).collect();
    // plaintexts at word / limb / byte-pattern boundaries (quick: a subset)
    let mags = gen::magnitude_scalars();
    if ctx.tier == crate::Tier::Quick {
        for want in ["255", "2^32-1", "2^32", "2^63-1", "2^63", "2^63+1", "u64::MAX", "2^64", "0xdeadbeefcafef00d", "2^128", "2^248", "2^253"] {
            if let Some(m) = mags.iter().find(|(n, _)| n == want) {
                edges.push(m.clone());
            }
        }
    } else {
        edges.extend(mags);
    }
    for rep in 0..reps {
        for (ename, m) in &edges {
            g += 1;
            if !ctx.mine(g) {
                continue;
            }
            one::<C>(ctx, g, ename.as_str(), m, rep);
        }
    }
    // sums
    for &k in &[2usize, 3, 16] {
        // plaintext patterns 0..5 (see sums) x repetitions
        for rep in 0..ctx.tier.pick(5, 60) {
            g += 1;
            if !ctx.mine(g) {
                continue;
            }
            sums::<C>(ctx, g, k, rep);
        }
    }
    // every edge scalar as RECIPIENT key (public key = generator for sk = 1), with and without proof
    {
        let mut erng2 = ctx.rng_l(base, "recipient-edges");
        for (kname, k) in gen::edge_scalars(&mut erng2) {
            g += 1;
            if !ctx.mine(g) {
                continue;
            }
            let sk = sk_from_rs::<C>(&k);
            let pk = sk.public_key();
            let m = gen::random_scalar(&mut erng2);
            let want = hm::<C>(&m);
            let d = || json!({"suite":n,"recipient_sk_class":kname,"recipient_sk":hex::encode(k.to_be_bytes()),"m":hex::encode(m.to_be_bytes())});
            match ctx.guard("PublicKey::encrypt_key_el_gamal", d, || pk.encrypt_key_el_gamal(&sk_from_rs::<C>(&m))) {
                Some(Ok(ct)) => { ctx.expect(enc_pt(&ct.decrypt(&sk)) == want, &format!("C14/decrypt-wrong/{n}"), || d()); }
                Some(Err(e)) => ctx.violation(&format!("C14/encrypt-failed/{n}"), { let mut x = d(); x["error"] = json!(e.to_string()); x }),
                None => {}
            }
            match ctx.guard("PublicKey::encrypt_key_el_gamal_with_proof", d, || pk.encrypt_key_el_gamal_with_proof(&sk_from_rs::<C>(&m))) {
                Some(Ok(p)) => {
                    let ok = p.verify(pk).is_ok() && p.verify_and_decrypt(&sk).ok().map(|x| enc_pt(&x)).as_deref() == Some(&want[..]);
                    ctx.expect(ok, &format!("C14/honest-proof-rejected/{n}"), || d());
                }
                Some(Err(e)) => ctx.violation(&format!("C14/prove-failed/{n}"), { let mut x = d(); x["error"] = json!(e.to_string()); x }),
                None => {}
            }
            ctx.hit(&format!("{n}/proof/honest"), &[b"edge recipient", &k.to_be_bytes()]);
        }
    }
    // history clusters
    ctx.require(&format!("{n}/history"));
    for i in 0..ctx.tier.pick(2, 32) {
        g += 1;
        if ctx.mine(g) {
            history_cluster::<C>(ctx, g, i);
        }
    }
    // decryption shares: large sets
    for t in [2usize, 5] {
        g += 1;
        if ctx.mine(g) {
            shares_large::<C>(ctx, g, t);
        }
    }
    // decryption shares
    let nmax = ctx.tier.pick(4usize, 5);
    for nn in 2..=nmax {
        for t in 2..=nn {
            g += 1;
            if !ctx.mine(g) {
                continue;
            }
            shares::<C>(ctx, g, t, nn);
        }
    }
    let s = format!("ElGamal decryption-share subsets for every (t,n), n<={nmax}; the 6 Add/AddAssign impls");
    if !ctx.exhaustive.contains(&s) {
        ctx.exhaustive.push(s);
    }
}

fn hm<C: Suite>(m: &RS) -> Vec<u8> {
    refimpl::elgamal_generator::<C::R>().mul(m).enc()
}

fn one<C: Suite>(ctx: &mut Ctx, g: u64, ename: &str, m: &RS, _rep: usize) {
    let mut rng = ctx.rng(g);
    let n = C::NAME;
    let k = gen::key_for(g, &mut rng); // every fourth case: an edge scalar
    let sk = sk_from_rs::<C>(&k);
    let pk = sk.public_key();
    let msk = sk_from_rs::<C>(m);
    let want = hm::<C>(m);
    let d = |what: &str| json!({"what":what,"suite":n,"sk":hex::encode(k.to_be_bytes()),"m":hex::encode(m.to_be_bytes()),"m_class":ename});
    // plain ciphertext
    match ctx.guard("PublicKey::encrypt_key_el_gamal", || d("encrypt"), || pk.encrypt_key_el_gamal(&msk)) {
        Some(Ok(ct)) => {
            let got = ctx.guard("ElGamalCiphertext::decrypt", || d("decrypt"), || enc_pt(&ct.decrypt(&sk)));
            if let Some(got) = got {
                ctx.expect(got == want, &format!("C14/decrypt-wrong/{n}"), || { let mut x = d("decrypt != m*H"); x["got"] = json!(hex::encode(&got)); x["want"] = json!(hex::encode(&want)); x });
                // whole-key decryption key c1*sk
                let dk = ElGamalDecryptionKey::<C>(ct.c1 * sk.0);
                ctx.expect(enc_pt(&dk.decrypt(&ct)) == want, &format!("C14/decryption-key-wrong/{n}"), || d("ElGamalDecryptionKey(c1*sk).decrypt != m*H"));
                // structure: c1 = b*P, c2 - sk*c1 = m*H  (reference arithmetic)
                let (c1, c2) = (rpk_pt::<C>(&ct.c1), rpk_pt::<C>(&ct.c2));
                ctx.expect(refimpl::elgamal_decrypt::<C::R>(&k, c1, c2).enc() == want, &format!("C14/reference-decrypt-wrong/{n}"), || d("reference decryption of the library ciphertext != m*H"));
                // another key must not decrypt to m*H
                let other = sk_from_rs::<C>(&gen::random_scalar(&mut rng));
                ctx.expect(enc_pt(&ct.decrypt(&other)) != want, &format!("C14/wrong-key-decrypts/{n}"), || d("another secret key decrypts to m*H"));
                // ... nor the keys related to the right one
                {
                    let inv: Option<RS> = Option::from(k.invert());
                    for (rn, rk) in [("-k", -k), ("k+1", k + RS::ONE), ("2k", k + k), ("1/k", inv.unwrap_or(RS::ONE))] {
                        if rk != k && !bool::from(rk.is_zero()) {
                            ctx.expect(enc_pt(&ct.decrypt(&sk_from_rs::<C>(&rk))) != want, &format!("C14/wrong-key-decrypts/{n}"), || { let mut x = d("a key related to the right one decrypts to m*H"); x["related"] = json!(rn); x });
                        }
                    }
                }
                ctx.hit(&format!("{n}/decrypt"), &[&Vec::from(&ct)]);
                ctx.sample(&format!("{n}/decrypt"), || { let mut x = d("decrypt == m*H"); x["ct"] = json!(hex::encode(Vec::from(&ct))); x });
            }
        }
        Some(Err(e)) => ctx.violation(&format!("C14/encrypt-failed/{n}"), json!({"err":e.to_string()})),
        None => {}
    }
    // with proof
    let proof = match ctx.guard("PublicKey::encrypt_key_el_gamal_with_proof", || d("encrypt+prove"), || pk.encrypt_key_el_gamal_with_proof(&msk)) {
        Some(Ok(p)) => p,
        Some(Err(e)) => {
            ctx.violation(&format!("C14/prove-failed/{n}"), json!({"err":e.to_string()}));
            return;
        }
        None => return,
    };
    let pb = Vec::from(&proof);
    let v = ctx.guard("ElGamalProof::verify", || d("verify"), || proof.verify(pk).is_ok());
    let honest = v == Some(true);
    ctx.expect(honest, &format!("C14/honest-proof-rejected/{n}"), || d("honest proof rejected"));
    let vd = ctx.guard("ElGamalProof::verify_and_decrypt", || d("verify_and_decrypt"), || proof.verify_and_decrypt(&sk).ok().map(|p| enc_pt(&p)));
    if let Some(vd) = vd {
        ctx.expect(vd.as_deref() == Some(&want[..]), &format!("C14/verify-and-decrypt-wrong/{n}"), || d("verify_and_decrypt != m*H"));
    }
    ctx.hit(&format!("{n}/proof/honest"), &[&pb]);
    // reference accepts and reproduces the challenge
    let rp = to_ref::<C>(&proof);
    let (acc, chal) = refimpl::elgamal_verify::<C::R>(rpk_of::<C>(&pk), &rp);
    ctx.expect(acc && chal == rp.challenge, &format!("C14/reference-rejects-proof/{n}"), || { let mut x = d("the reference verifier (own merlin transcript) rejects the library's proof"); x["proof"] = json!(hex::encode(&pb)); x });
    ctx.hit(&format!("{n}/proof/reference-accepts"), &[&pb]);
    // library accepts a reference-built proof
    {
        let b = gen::random_scalar(&mut rng);
        let r = gen::random_scalar(&mut rng);
        let rp2 = refimpl::elgamal_prove::<C::R>(rpk_of::<C>(&pk), m, &b, &r);
        let lp2 = from_ref::<C>(&rp2);
        let ok = lp2.verify(pk).is_ok() && lp2.verify_and_decrypt(&sk).ok().map(|p| enc_pt(&p)).as_deref() == Some(&want[..]);
        ctx.expect(ok, &format!("C14/library-rejects-reference-proof/{n}"), || { let mut x = d("the library rejects a proof built by the reference"); x["proof"] = json!(hex::encode(Vec::from(&lp2))); x });
        ctx.hit(&format!("{n}/proof/library-accepts-reference"), &[&Vec::from(&lp2)]);
    }
    if !honest {
        return;
    }
    // perturbations
    let other_proof = match pk.encrypt_key_el_gamal_with_proof(&msk) {
        Ok(p) => p,
        Err(e) => {
            ctx.violation(&format!("C14/prove-failed/{n}"), json!({"err":e.to_string(),"what":"second proof for the same inputs"}));
            return;
        }
    };
    let one = <Sc<C> as Field>::ONE;
    let gpk = <PkPt<C> as Group>::generator();
    let mut variants: Vec<(&str, ElGamalProof<C>)> = Vec::new();
    let mut p = proof; p.ciphertext.c1 += gpk; variants.push(("c1+G", p));
    let mut p = proof; p.ciphertext.c2 += gpk; variants.push(("c2+G", p));
    let mut p = proof; core::mem::swap(&mut p.ciphertext.c1, &mut p.ciphertext.c2); variants.push(("c1<->c2", p));
    let mut p = proof; p.ciphertext.c1 = -p.ciphertext.c1; variants.push(("-c1", p));
    let mut p = proof; p.message_proof += one; variants.push(("message_proof+1", p));
    let mut p = proof; p.blinder_proof += one; variants.push(("blinder_proof+1", p));
    let mut p = proof; p.challenge += one; variants.push(("challenge+1", p));
    let mut p = proof; p.challenge = other_proof.challenge; variants.push(("challenge-of-other-proof", p));
    let mut p = proof; p.ciphertext = other_proof.ciphertext; variants.push(("ciphertext-of-other-proof", p));
    let mut p = proof; core::mem::swap(&mut p.message_proof, &mut p.blinder_proof); variants.push(("message_proof<->blinder_proof", p));
    // a verifier that compares only part of the challenge accepts a small fraction of tampered
    // proofs: sweep many values per component instead of one
    let mut sweep: Vec<(String, ElGamalProof<C>)> = Vec::new();
    {
        let mut acc = one;
        for i in 1..=ctx.tier.pick(48u32, 160) {
            let mut p = proof; p.message_proof += acc; sweep.push((format!("message_proof+{i}"), p));
            let mut p = proof; p.blinder_proof += acc; sweep.push((format!("blinder_proof+{i}"), p));
            let mut p = proof; p.challenge += acc; sweep.push((format!("challenge+{i}"), p));
            acc += one;
        }
    }
    for (vn, p) in &sweep {
        let Some(a) = ctx.guard("ElGamalProof::verify", || d(vn), || p.verify(pk).is_ok()) else { continue };
        let class = vn.split('+').next().unwrap_or("sweep");
        ctx.expect(!a, &format!("C14/perturbed-proof-accepted/{n}/{class}+i"), || { let mut x = d("a proof with one scalar changed is accepted"); x["variant"] = json!(vn); x });
        ctx.hit(&format!("{n}/proof/perturbed"), &[vn.as_bytes(), &pb]);
    }
    for (vn, p) in variants {
        let a = ctx.guard("ElGamalProof::verify", || d(vn), || p.verify(pk).is_ok());
        let b = ctx.guard("ElGamalProof::verify_and_decrypt", || d(vn), || p.verify_and_decrypt(&sk).is_ok());
        if let (Some(a), Some(b)) = (a, b) {
            ctx.expect(!a && !b, &format!("C14/perturbed-proof-accepted/{n}/{vn}"), || { let mut x = d("a proof with one component changed is accepted"); x["variant"] = json!(vn); x["verify"] = json!(a); x["verify_and_decrypt"] = json!(b); x });
            let (racc, _) = refimpl::elgamal_verify::<C::R>(rpk_of::<C>(&pk), &to_ref::<C>(&p));
            if racc {
                ctx.harness_error(format!("C14: reference accepts perturbed proof {vn}"));
            }
            ctx.hit(&format!("{n}/proof/perturbed"), &[vn.as_bytes(), &pb]);
        }
    }
    let ok = sk_from_rs::<C>(&gen::random_scalar(&mut rng));
    for (vn, pk2) in [("other-pk", ok.public_key()), ("-pk", PublicKey::<C>(-pk.0)), ("pk+G", PublicKey::<C>(pk.0 + gpk))] {
        let a = ctx.guard("ElGamalProof::verify", || d(vn), || proof.verify(pk2).is_ok());
        if let Some(a) = a {
            ctx.expect(!a, &format!("C14/proof-accepted-for-other-key/{n}/{vn}"), || { let mut x = d("the proof verifies under another public key"); x["variant"] = json!(vn); x });
            ctx.hit(&format!("{n}/proof/perturbed"), &[vn.as_bytes(), &pb]);
        }
    }
    let a = ctx.guard("ElGamalProof::verify_and_decrypt", || d("wrong key"), || proof.verify_and_decrypt(&ok).is_ok());
    if let Some(a) = a {
        ctx.expect(!a, &format!("C14/verify-and-decrypt-wrong-key/{n}"), || d("verify_and_decrypt succeeds with a non-matching secret key"));
        ctx.hit(&format!("{n}/proof/wrong-key"), &[&pb]);
    }
}

/// Large share sets: a 2-of-255 and a 5-of-255 split, recombined from the 10 highest identifiers,
/// the 21 lowest, 9 around 128, and all 255 (products of identifiers beyond 64 bits).
fn shares_large<C: Suite>(ctx: &mut Ctx, g: u64, t: usize) {
    let mut rng = ctx.rng(g);
    let n = C::NAME;
    let key = gen::random_scalar(&mut rng);
    let sk = sk_from_rs::<C>(&key);
    let pk = sk.public_key();
    let m = gen::random_scalar(&mut rng);
    let want = hm::<C>(&m);
    let Ok(ct) = pk.encrypt_key_el_gamal(&sk_from_rs::<C>(&m)) else { return };
    let Ok(sh) = sk.split(t, 255) else { return };
    let ds: Vec<ElGamalDecryptionShare<C>> = sh.iter().filter_map(|s| <C as BlsSignatureCore>::public_key_share_with_generator(&s.0, ct.c1).ok().map(ElGamalDecryptionShare)).collect();
    if ds.len() != 255 {
        return;
    }
    let sets: Vec<(&str, Vec<usize>)> = vec![
        ("10 highest identifiers", (245..255).collect()),
        ("10 highest identifiers, descending", (245..255).rev().collect()),
        ("21 lowest identifiers", (0..21).collect()),
        ("9 identifiers around 128", (124..133).collect()),
        ("all 255", (0..255).collect()),
    ];
    for (sn, idx) in sets {
        let sel: Vec<ElGamalDecryptionShare<C>> = idx.iter().map(|i| ds[*i].clone()).collect();
        let d = || json!({"suite":n,"t":t,"n":255,"subset":sn});
        let Some(r) = ctx.guard("ElGamalDecryptionKey::from_shares", d, || ElGamalDecryptionKey::<C>::from_shares(&sel)) else { continue };
        let got = r.ok().map(|k| enc_pt(&k.decrypt(&ct)));
        ctx.expect(got.as_deref() == Some(&want[..]), &format!("C14/threshold-decrypt-failed/{n}"), || { let mut x = d(); x["what"] = json!("a key recombined from t or more decryption shares does not decrypt to m*H"); x });
        ctx.hit(&format!("{n}/shares/>=t"), &[&[t as u8, 255], sn.as_bytes(), &want]);
    }
}

fn rpk_pt<C: Suite>(p: &PkPt<C>) -> RPk<C> {
    RPk::<C>::dec(&enc_pt(p)).expect("valid library point")
}

fn to_ref<C: Suite>(p: &ElGamalProof<C>) -> RElGamalProof<C::R> {
    RElGamalProof {
        c1: rpk_pt::<C>(&p.ciphertext.c1),
        c2: rpk_pt::<C>(&p.ciphertext.c2),
        message_proof: rs_from_sc::<C>(&p.message_proof),
        blinder_proof: rs_from_sc::<C>(&p.blinder_proof),
        challenge: rs_from_sc::<C>(&p.challenge),
    }
}

fn from_ref<C: Suite>(p: &RElGamalProof<C::R>) -> ElGamalProof<C> {
    ElGamalProof {
        ciphertext: ElGamalCiphertext { c1: lp::<C>(p.c1), c2: lp::<C>(p.c2) },
        message_proof: sc_from_rs::<C>(&p.message_proof),
        blinder_proof: sc_from_rs::<C>(&p.blinder_proof),
        challenge: sc_from_rs::<C>(&p.challenge),
    }
}

fn sums<C: Suite>(ctx: &mut Ctx, g: u64, k: usize, rep: usize) {
    let mut rng = ctx.rng(g);
    let n = C::NAME;
    let key = gen::key_for(g, &mut rng); // every fourth case: an edge scalar
    let sk = sk_from_rs::<C>(&key);
    let pk = sk.public_key();
    let mut ms: Vec<RS> = (0..k).map(|_| gen::random_scalar(&mut rng)).collect();
    let pattern = match rep % 5 {
        0 => "random",
        1 => {
            ms[0] = -RS::ONE; // r-1
            ms[1] = RS::ONE + RS::ONE; // wraps around the group order
            "wraps-around-r"
        }
        2 => {
            // the plaintexts cancel: the sum encrypts 0 and must decrypt to 0*H (the identity)
            let partial = ms[..k - 1].iter().fold(RS::ZERO, |a, b| a + *b);
            ms[k - 1] = -partial;
            "sum-is-zero"
        }
        3 => {
            // the two named edge plaintexts next to each other: 1 + (r-1) = 0, rest cancels too
            ms[0] = RS::ONE;
            ms[1] = -RS::ONE;
            if k > 2 {
                let partial = ms[2..k - 1].iter().fold(RS::ZERO, |a, b| a + *b);
                ms[k - 1] = -partial;
            }
            "one-plus-r-minus-one"
        }
        _ => {
            let partial = ms[..k - 1].iter().fold(RS::ZERO, |a, b| a + *b);
            ms[k - 1] = RS::ONE - partial;
            "sum-is-one"
        }
    };
    if ms.iter().any(|m| bool::from(m.is_zero())) {
        return; // (k = 2 with a cancelling random tail cannot give a zero plaintext; guard anyway)
    }
    let total = ms.iter().fold(RS::ZERO, |a, b| a + *b);
    let want = hm::<C>(&total);
    let cts: Vec<ElGamalCiphertext<C>> = match ms.iter().map(|m| pk.encrypt_key_el_gamal(&sk_from_rs::<C>(m))).collect::<Result<Vec<_>, _>>() {
        Ok(v) => v,
        Err(e) => {
            ctx.violation(&format!("C14/encrypt-failed/{n}"), json!({"err":e.to_string(),"plaintexts_be":ms.iter().map(|m| hex::encode(m.to_be_bytes())).collect::<Vec<_>>()}));
            return;
        }
    };
    let d = |what: &str| json!({"what":what,"suite":n,"k":k,"plaintext_pattern":pattern,"plaintexts_be":ms.iter().map(|m| hex::encode(m.to_be_bytes())).collect::<Vec<_>>(),"sk_be":hex::encode(key.to_be_bytes())});
    // six ways of adding
    let mut results: Vec<(&str, ElGamalCiphertext<C>)> = Vec::new();
    let mut a = cts[0]; for c in &cts[1..] { a = a + *c; } results.push(("T+T", a));
    let mut a = cts[0]; for c in &cts[1..] { a = a + c; } results.push(("T+&T", a));
    let mut a = cts[0]; for c in &cts[1..] { a = &a + *c; } results.push(("&T+T", a));
    let mut a = cts[0]; for c in &cts[1..] { a = &a + c; } results.push(("&T+&T", a));
    let mut a = cts[0]; for c in &cts[1..] { a += *c; } results.push(("T+=T", a));
    let mut a = cts[0]; for c in &cts[1..] { a += c; } results.push(("T+=&T", a));
    for (op, sum) in results {
        let Some(got) = ctx.guard("ElGamalCiphertext::decrypt (sum)", || d(op), || enc_pt(&sum.decrypt(&sk))) else { continue };
        ctx.expect(got == want, &format!("C14/sum-wrong/{n}/{op}"), || { let mut x = d("the sum of ciphertexts does not decrypt to the sum of the plaintexts"); x["op"] = json!(op); x });
        // component-wise
        let c1 = refimpl::sum(cts.iter().map(|c| rpk_pt::<C>(&c.c1)));
        let c2 = refimpl::sum(cts.iter().map(|c| rpk_pt::<C>(&c.c2)));
        ctx.expect(enc_pt(&sum.c1) == c1.enc() && enc_pt(&sum.c2) == c2.enc(), &format!("C14/sum-not-componentwise/{n}/{op}"), || d("sum is not component-wise"));
        ctx.hit(&format!("{n}/sum"), &[op.as_bytes(), &Vec::from(&sum)]);
    }
    ctx.sample(&format!("{n}/sum"), || d("sum of k ciphertexts decrypts to (sum m_i)*H through all six Add impls"));
}

fn shares<C: Suite>(ctx: &mut Ctx, g: u64, t: usize, nn: usize) {
    let mut rng = ctx.rng(g);
    let n = C::NAME;
    let key = gen::key_for(g, &mut rng); // every fourth case: an edge scalar
    let sk = sk_from_rs::<C>(&key);
    let pk = sk.public_key();
    let m = gen::random_scalar(&mut rng);
    let want = hm::<C>(&m);
    let Ok(ct) = pk.encrypt_key_el_gamal(&sk_from_rs::<C>(&m)) else {
        ctx.violation(&format!("C14/encrypt-failed/{n}"), json!({"m":hex::encode(m.to_be_bytes())}));
        return;
    };
    let sh = sk.split(t, nn).expect("split");
    let Ok(ds) = sh.iter().map(|s| <C as BlsSignatureCore>::public_key_share_with_generator(&s.0, ct.c1).map(ElGamalDecryptionShare)).collect::<Result<Vec<ElGamalDecryptionShare<C>>, _>>() else {
        ctx.violation(&format!("C14/decryption-share-failed/{n}"), json!({"t":t,"n":nn}));
        return;
    };
    let mut orders: Vec<Vec<usize>> = Vec::new();
    for sub in gen::subsets(nn) {
        orders.push(sub.clone());
        if sub.len() >= 2 {
            let mut r = sub.clone();
            r.reverse();
            orders.push(r);
            let mut s = sub.clone();
            gen::shuffle(&mut s, &mut rng);
            if s != sub {
                orders.push(s);
            }
        }
    }
    for sub in orders {
        let sel: Vec<ElGamalDecryptionShare<C>> = sub.iter().map(|i| ds[*i].clone()).collect();
        let enough = sub.len() >= t;
        let d = || json!({"suite":n,"t":t,"n":nn,"subset":sub});
        let r = ctx.guard("ElGamalDecryptionKey::from_shares", d, || ElGamalDecryptionKey::<C>::from_shares(&sel));
        let Some(r) = r else { continue };
        let got = r.ok().map(|k| enc_pt(&k.decrypt(&ct)));
        let fpd: Vec<u8> = sub.iter().map(|i| *i as u8).collect();
        if enough {
            ctx.expect(got.as_deref() == Some(&want[..]), &format!("C14/threshold-decrypt-failed/{n}"), || { let mut x = d(); x["what"] = json!("a key recombined from t or more decryption shares does not decrypt to m*H"); x });
            ctx.hit(&format!("{n}/shares/>=t"), &[&[t as u8, nn as u8], &fpd, &want]);
        } else {
            ctx.expect(got.as_deref() != Some(&want[..]), &format!("C14/too-few-decrypt/{n}"), || { let mut x = d(); x["what"] = json!("fewer than t decryption shares decrypt to m*H"); x });
            ctx.hit(&format!("{n}/shares/<t"), &[&[t as u8, nn as u8], &fpd, &want]);
        }
    }
}

/// Two recipient keys, two proofs for the first: verify / verify_and_decrypt / decrypt of the
/// honest proofs and of single-component variants, asked in every ordered pair as a, b, b, a.
fn history_cluster<C: Suite>(ctx: &mut Ctx, g: u64, i: usize) {
    use super::history::{q, sandwiches, Q};
    let mut rng = ctx.rng(g);
    let n = C::NAME;
    let k = gen::random_scalar(&mut rng);
    let sk = sk_from_rs::<C>(&k);
    let pk = sk.public_key();
    let sk2 = sk_from_rs::<C>(&gen::random_scalar(&mut rng));
    let pk2 = sk2.public_key();
    let m = match i % 4 { 0 => gen::random_scalar(&mut rng), 1 => RS::ONE, 2 => -RS::ONE, _ => gen::random_scalar(&mut rng) };
    let msk = sk_from_rs::<C>(&m);
    let want = hm::<C>(&m);
    let (Ok(p1), Ok(p2)) = (pk.encrypt_key_el_gamal_with_proof(&msk), pk.encrypt_key_el_gamal_with_proof(&msk)) else { return };
    type A = Option<Vec<u8>>;
    let verdict = |b: bool| -> A { Some(vec![b as u8]) };
    let one = <Sc<C> as Field>::ONE;
    let gpk = <PkPt<C> as Group>::generator();
    let mut variants: Vec<(String, bool, ElGamalProof<C>)> = vec![("honest-1".into(), true, p1), ("honest-2".into(), true, p2)];
    let mut p = p1; p.ciphertext.c1 += gpk; variants.push(("c1+G".into(), false, p));
    let mut p = p1; p.ciphertext.c2 += gpk; variants.push(("c2+G".into(), false, p));
    let mut p = p1; p.message_proof += one; variants.push(("message_proof+1".into(), false, p));
    let mut p = p1; p.blinder_proof += one; variants.push(("blinder_proof+1".into(), false, p));
    let mut p = p1; p.challenge = p2.challenge; variants.push(("challenge-of-2".into(), false, p));
    let mut p = p1; p.ciphertext = p2.ciphertext; variants.push(("ciphertext-of-2".into(), false, p));
    let mut qs: Vec<Q<A>> = Vec::new();
    let (skr, sk2r) = (&sk, &sk2);
    for (vn, ok, p) in variants {
        qs.push(q(format!("{vn}/verify"), verdict(ok), move || verdict(p.verify(pk).is_ok())));
        qs.push(q(format!("{vn}/verify-other-key"), verdict(false), move || verdict(p.verify(pk2).is_ok())));
        qs.push(q(format!("{vn}/verify_and_decrypt"), if ok { Some(want.clone()) } else { None }, move || p.verify_and_decrypt(skr).ok().map(|x| enc_pt(&x))));
        qs.push(q(format!("{vn}/verify_and_decrypt-other-key"), None, move || p.verify_and_decrypt(sk2r).ok().map(|x| enc_pt(&x))));
    }
    let ct = p1.ciphertext;
    qs.push(q("honest-1/decrypt".to_string(), Some(want.clone()), move || Some(enc_pt(&ct.decrypt(skr)))));
    let d = || json!({"suite":n,"sk":hex::encode(k.to_be_bytes()),"m":hex::encode(m.to_be_bytes()),"note":"verdicts answer [1]/[0]; decrypt questions answer the point or null"});
    let mut cid = k.to_be_bytes().to_vec();
    cid.extend_from_slice(&m.to_be_bytes());
    sandwiches(ctx, "C14", &format!("{n}/history"), "proof-variants", &cid, &d, &qs);
}
