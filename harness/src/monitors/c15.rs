//! C15 - every value survives every encoding unchanged.

use crate::codec::{self, Env, Subject, Visitor};
use crate::gen;
use crate::suite::*;
use crate::{for_both, hx, Ctx};
use blsful::*;
use rand_chacha::ChaCha20Rng;
use serde_json::json;
use std::collections::{BTreeMap, BTreeSet};

pub const RULE: &str = "all 28 exported data types (26 with byte conversions + SignatureSchemes and Bls12381 through serde and their u8/str conversions) x 2 groups x every enum variant x values {honestly generated; identity points; edge scalars 1,2,3,r-1,r-2,...; empty / 64 KiB payloads; every share identifier 1..=255; timestamps 0, 127, 128, u64::MAX}. For each value and each codec of {Vec::from(&T)/T::try_from(&[u8]); the four container conversions From<T> for Vec<u8>, TryFrom<Vec<u8>>, TryFrom<&Vec<u8>>, TryFrom<Box<[u8]>>; serde_bare; serde_json; to/from_be_bytes and to/from_le_bytes for the scalar types}: encode twice (determinism), decode, require equality with the original AND byte equality of the re-encoding. A per-(type, codec) length table measured in the run must have exactly one entry for fixed-size types (bytes and serde_bare codecs; serde_json per variant). Distinct by (suite,type,codec,encoded bytes); every case is non-trivial (a value was encoded, decoded and compared). History cluster: for two values of every type of both group assignments the questions {encode, byte round trip, serde_bare round trip, serde_json round trip} are asked in ordered pairs (a,b) as a,b,b,a - every pair about one type, 1500 / 8000 sampled pairs across types and groups - and must always answer the same bytes.";

pub fn run(ctx: &mut Ctx) {
    for_both!(run_suite, ctx);
    enums(ctx);
    history(ctx);
}

/// Collects, for the first samples of every type of one group assignment, the questions
/// "encode", "decode and re-encode" through the byte form, serde_bare and serde_json, with the
/// answers computed once while collecting.
struct H {
    suite: &'static str,
    per_type: usize,
    qs: Vec<super::history::Q<'static, Option<Vec<u8>>>>,
}

impl<C: Suite> Visitor<C> for H {
    fn visit<T: Subject<C>>(&mut self, env: &Env<C>, rng: &mut ChaCha20Rng) {
        use super::history::q;
        let samples = T::samples(env, rng, false);
        let fam = format!("{}:{}", self.suite, T::NAME);
        // honest first sample plus the last (an edge value) of the type
        let mut picked: Vec<(String, T)> = Vec::new();
        let last = samples.len().saturating_sub(1);
        for (i, (label, x)) in samples.into_iter().enumerate() {
            if i < self.per_type.saturating_sub(1) || i == last {
                picked.push((label, x));
            }
        }
        for (i, (_label, x)) in picked.into_iter().enumerate() {
            let b = x.w_bytes();
            let (x1, b1) = (x.clone(), b.clone());
            self.qs.push(q(format!("{fam}/value-{i}/to-bytes"), Some(b.clone()), move || Some(x1.w_bytes())));
            self.qs.push(q(format!("{fam}/value-{i}/bytes-round-trip"), Some(b.clone()), move || T::w_from(&b1).ok().map(|y| y.w_bytes())));
            if let Ok(bb) = x.bare() {
                let x2 = x.clone();
                self.qs.push(q(format!("{fam}/value-{i}/bare-round-trip"), Some(b.clone()), move || x2.bare().ok().and_then(|e| T::from_bare(&e).ok()).map(|y| y.w_bytes())));
                let _ = bb;
            }
            if x.json().is_ok() {
                let x3 = x.clone();
                self.qs.push(q(format!("{fam}/value-{i}/json-round-trip"), Some(b.clone()), move || x3.json().ok().and_then(|e| T::from_json(&e).ok()).map(|y| y.w_bytes())));
            }
        }
    }
}

/// History cluster over the codecs of BOTH group assignments: every ordered pair of questions
/// about one type, plus sampled pairs across types and groups, asked as a, b, b, a.
fn history(ctx: &mut Ctx) {
    use super::history::{family_pairs, sandwich_pairs};
    ctx.require("history");
    let g = (1u64 << 40) + 7;
    if !ctx.mine(g) {
        return;
    }
    let mut rng = ctx.rng(g);
    let mut erng = ctx.rng_l(g, "env");
    let mut h = H { suite: "G1Impl", per_type: 2, qs: Vec::new() };
    let env1 = Env::<Bls12381G1Impl>::new(&mut erng);
    codec::visit_all::<Bls12381G1Impl, _>(&mut h, &env1, &mut erng);
    h.suite = "G2Impl";
    let env2 = Env::<Bls12381G2Impl>::new(&mut erng);
    codec::visit_all::<Bls12381G2Impl, _>(&mut h, &env2, &mut erng);
    let qs = h.qs;
    let pairs = family_pairs(&qs, ctx.tier.pick(1500, 8000), &mut rng);
    let d = || json!({"note":"every question answers the value's byte form (after the named round trip)"});
    sandwich_pairs(ctx, "C15", "history", "codecs", b"both-groups", &d, &qs, &pairs);
}

struct V<'a> {
    ctx: &'a mut Ctx,
    suite: &'static str,
    thorough: bool,
    lens: BTreeMap<String, BTreeSet<usize>>,
}

impl<'a, C: Suite> Visitor<C> for V<'a> {
    fn visit<T: Subject<C>>(&mut self, env: &Env<C>, rng: &mut ChaCha20Rng) {
        let n = self.suite;
        let tn = T::NAME;
        let samples = T::samples(env, rng, self.thorough);
        for codec in ["bytes", "containers", "bare", "json"] {
            self.ctx.require(&format!("{n}/{tn}/{codec}"));
        }
        for (label, x) in samples {
            let d = |what: &str, codec: &str, enc: &[u8]| json!({"what":what,"suite":n,"type":tn,"value":label,"codec":codec,"encoded":hx(enc)});
            // ---- bytes
            let b = self.ctx.guard(&format!("{tn}::to-bytes"), || json!({"value":label}), || x.w_bytes());
            if let Some(b) = b {
                let b2 = x.w_bytes();
                self.ctx.expect(b == b2, &format!("C15/nondeterministic/{tn}/bytes"), || d("two encodings of one value differ", "bytes", &b));
                let back = self.ctx.guard(&format!("{tn}::try_from(&[u8])"), || json!({"bytes":hx(&b)}), || T::w_from(&b));
                match back {
                    Some(Ok(y)) => {
                        let same = y == x;
                        let re = y.w_bytes();
                        self.ctx.expect(same && re == b, &format!("C15/roundtrip/{n}/{tn}/bytes"), || {
                            let mut v = d("decode(encode(x)) != x", "bytes", &b);
                            v["equal_value"] = json!(same);
                            v["reencoded"] = json!(hx(&re));
                            v["decoded_variant"] = json!(y.variant());
                            v["original_variant"] = json!(x.variant());
                            v
                        });
                    }
                    Some(Err(e)) => self.ctx.violation(&format!("C15/roundtrip/{n}/{tn}/bytes"), { let mut v = d("the type's own byte form is rejected by its decoder", "bytes", &b); v["error"] = json!(e); v }),
                    None => {}
                }
                self.ctx.hit(&format!("{n}/{tn}/bytes"), &[&b]);
                self.ctx.sample(&format!("{n}/{tn}/bytes"), || d("round trip", "bytes", &b));
                if T::FIXED {
                    self.lens.entry(format!("{n}/{tn}/bytes")).or_default().insert(b.len());
                }
                // ---- the four container conversions
                let into = x.clone().w_into_vec();
                let c1 = T::w_from_vec(b.clone()).ok().map(|y| y == x);
                let c2 = T::w_from_vec_ref(&b).ok().map(|y| y == x);
                let c3 = T::w_from_box(b.clone().into_boxed_slice()).ok().map(|y| y == x);
                let ok = into == b && c1 == Some(true) && c2 == Some(true) && c3 == Some(true);
                self.ctx.expect(ok, &format!("C15/roundtrip/{n}/{tn}/containers"), || {
                    let mut v = d("a byte-container conversion disagrees with the slice conversion", "containers", &b);
                    v["into_vec_equal"] = json!(into == b);
                    v["try_from_vec"] = json!(c1);
                    v["try_from_vec_ref"] = json!(c2);
                    v["try_from_box"] = json!(c3);
                    v
                });
                self.ctx.hit(&format!("{n}/{tn}/containers"), &[&b]);
            }
            // ---- serde_bare
            match x.bare() {
                Ok(b) => {
                    let b2 = x.bare().unwrap_or_default();
                    self.ctx.expect(b == b2, &format!("C15/nondeterministic/{tn}/bare"), || d("two encodings differ", "bare", &b));
                    let back = self.ctx.guard(&format!("{tn}::serde_bare"), || json!({"bytes":hx(&b)}), || T::from_bare(&b));
                    match back {
                        Some(Ok(y)) => {
                            let re = y.bare().unwrap_or_default();
                            self.ctx.expect(y == x && re == b, &format!("C15/roundtrip/{n}/{tn}/bare"), || d("decode(encode(x)) != x", "bare", &b));
                        }
                        Some(Err(e)) => self.ctx.violation(&format!("C15/roundtrip/{n}/{tn}/bare"), { let mut v = d("own serde_bare form rejected", "bare", &b); v["error"] = json!(e); v }),
                        None => {}
                    }
                    self.ctx.hit(&format!("{n}/{tn}/bare"), &[&b]);
                    if T::FIXED {
                        self.lens.entry(format!("{n}/{tn}/bare")).or_default().insert(b.len());
                    }
                }
                Err(e) => self.ctx.violation(&format!("C15/encode-failed/{n}/{tn}/bare"), json!({"error":e,"value":label})),
            }
            // ---- serde_json
            match x.json() {
                Ok(b) => {
                    let b2 = x.json().unwrap_or_default();
                    self.ctx.expect(b == b2, &format!("C15/nondeterministic/{tn}/json"), || d("two encodings differ", "json", &b));
                    let back = self.ctx.guard(&format!("{tn}::serde_json"), || json!({"json":String::from_utf8_lossy(&b)}), || T::from_json(&b));
                    match back {
                        Some(Ok(y)) => {
                            let re = y.json().unwrap_or_default();
                            self.ctx.expect(y == x && re == b, &format!("C15/roundtrip/{n}/{tn}/json"), || { let mut v = d("decode(encode(x)) != x", "json", &b); v["json"] = json!(String::from_utf8_lossy(&b)); v });
                        }
                        Some(Err(e)) => self.ctx.violation(&format!("C15/roundtrip/{n}/{tn}/json"), { let mut v = d("own serde_json form rejected", "json", &b); v["error"] = json!(e); v["json"] = json!(String::from_utf8_lossy(&b)); v }),
                        None => {}
                    }
                    self.ctx.hit(&format!("{n}/{tn}/json"), &[&b]);
                    if T::FIXED && tn != "ProofOfKnowledgeTimestamp" {
                        self.lens.entry(format!("{n}/{tn}/json/{}", x.variant())).or_default().insert(b.len());
                    }
                }
                Err(e) => self.ctx.violation(&format!("C15/encode-failed/{n}/{tn}/json"), json!({"error":e,"value":label})),
            }
        }
    }
}

fn run_suite<C: Suite>(ctx: &mut Ctx) {
    let base: u64 = if C::NAME == "G1Impl" { 1 } else { 2 };
    // the type list is the shard unit here: one worker per suite does the visiting (cheap)
    if !ctx.mine(base) {
        // still declare the required cells so that a missing worker is noticed
        return;
    }
    let mut rng = ctx.rng(base);
    let env = Env::<C>::new(&mut rng);
    let thorough = ctx.tier == crate::Tier::Thorough;
    let mut v = V { ctx, suite: C::NAME, thorough, lens: BTreeMap::new() };
    codec::visit_all::<C, _>(&mut v, &env, &mut rng);
    let lens = std::mem::take(&mut v.lens);
    drop(v);
    // length table: exactly one entry per fixed-size (type, codec)
    let mut table = serde_json::Map::new();
    for (k, set) in &lens {
        table.insert(k.clone(), json!(set.iter().collect::<Vec<_>>()));
        ctx.expect(set.len() == 1, &format!("C15/length-varies/{k}"), || json!({"what":"the encoded length of a fixed-size type depends on the value","key":k,"lengths":set.iter().collect::<Vec<_>>()}));
    }
    ctx.note(&format!("length_table/{}", C::NAME), serde_json::Value::Object(table));
    scalar_codecs::<C>(ctx, &mut rng);
}

fn scalar_codecs<C: Suite>(ctx: &mut Ctx, rng: &mut ChaCha20Rng) {
    let n = C::NAME;
    ctx.require(&format!("{n}/scalar-be-le"));
    let mut keys = gen::edge_scalars(rng);
    for _ in 0..24 {
        keys.push(("random", gen::random_scalar(rng)));
    }
    for (kn, k) in keys {
        let be = k.to_be_bytes();
        let mut le = be;
        le.reverse();
        let d = |what: &str, t: &str| json!({"what":what,"suite":n,"type":t,"scalar":hex::encode(be),"class":kn});
        let sk = sk_from_rs::<C>(&k);
        // SecretKey
        let ok = sk.to_be_bytes() == be
            && sk.to_le_bytes() == le
            && ct_some(SecretKey::<C>::from_be_bytes(&be)).map(|x| x == sk) == Some(true)
            && ct_some(SecretKey::<C>::from_le_bytes(&le)).map(|x| x == sk) == Some(true)
            && <[u8; 32]>::from(&sk) == be
            && <[u8; 32]>::from(sk.clone()) == be;
        ctx.expect(ok, &format!("C15/scalar-codec/{n}/SecretKey"), || d("big/little-endian scalar codec does not round trip", "SecretKey"));
        let s = ProofCommitmentSecret::<C>(sk.0);
        let ok = s.to_be_bytes() == be
            && s.to_le_bytes() == le
            && ct_some(ProofCommitmentSecret::<C>::from_be_bytes(&be)).map(|x| x == s) == Some(true)
            && ct_some(ProofCommitmentSecret::<C>::from_le_bytes(&le)).map(|x| x == s) == Some(true);
        ctx.expect(ok, &format!("C15/scalar-codec/{n}/ProofCommitmentSecret"), || d("big/little-endian scalar codec does not round trip", "ProofCommitmentSecret"));
        let c = ProofCommitmentChallenge::<C>(sk.0);
        let ok = c.to_be_bytes() == be
            && c.to_le_bytes() == le
            && ct_some(ProofCommitmentChallenge::<C>::from_be_bytes(&be)).map(|x| x == c) == Some(true)
            && ct_some(ProofCommitmentChallenge::<C>::from_le_bytes(&le)).map(|x| x == c) == Some(true);
        ctx.expect(ok, &format!("C15/scalar-codec/{n}/ProofCommitmentChallenge"), || d("big/little-endian scalar codec does not round trip", "ProofCommitmentChallenge"));
        // SecretKeyEnum: must come back as the same curve variant and key
        let e = match C::CURVE {
            Bls12381::G1 => SecretKeyEnum::G1(SecretKey(sc_from_rs::<Bls12381G1Impl>(&k))),
            Bls12381::G2 => SecretKeyEnum::G2(SecretKey(sc_from_rs::<Bls12381G2Impl>(&k))),
        };
        let eb = ctx.guard("SecretKeyEnum::to_be_bytes", || json!({}), || e.to_be_bytes());
        let el = ctx.guard("SecretKeyEnum::to_le_bytes", || json!({}), || e.to_le_bytes());
        if let (Some(eb), Some(el)) = (eb, el) {
            let back_be = ctx.guard("SecretKeyEnum::from_be_bytes", || json!({"bytes":hex::encode(&eb)}), || ct_some(SecretKeyEnum::from_be_bytes(&eb)));
            let back_le = ctx.guard("SecretKeyEnum::from_le_bytes", || json!({"bytes":hex::encode(&el)}), || ct_some(SecretKeyEnum::from_le_bytes(&el)));
            ctx.expect(back_be == Some(Some(e.clone())), &format!("C15/roundtrip/{n}/SecretKeyEnum/be-bytes"), || { let mut v = d("SecretKeyEnum::from_be_bytes(to_be_bytes(x)) != x", "SecretKeyEnum"); v["encoded"] = json!(hex::encode(&eb)); v["decoded"] = json!(format!("{:?}", back_be.as_ref().map(|o| o.as_ref().map(|k| <SecretKeyEnum as Subject<C>>::variant(k))))); v });
            ctx.expect(back_le == Some(Some(e.clone())), &format!("C15/roundtrip/{n}/SecretKeyEnum/le-bytes"), || { let mut v = d("SecretKeyEnum::from_le_bytes(to_le_bytes(x)) != x", "SecretKeyEnum"); v["encoded"] = json!(hex::encode(&el)); v });
            ctx.expect(eb.len() == 33 && el.len() == 33 && eb[1..] == be && el[1..] == le, &format!("C15/scalar-codec/{n}/SecretKeyEnum"), || d("tag || scalar layout broken", "SecretKeyEnum"));
        }
        ctx.hit(&format!("{n}/scalar-be-le"), &[&be]);
    }
}

fn enums(ctx: &mut Ctx) {
    ctx.require("enums/SignatureSchemes");
    ctx.require("enums/Bls12381");
    if !ctx.mine(3) {
        return;
    }
    for s in [SignatureSchemes::Basic, SignatureSchemes::MessageAugmentation, SignatureSchemes::ProofOfPossession] {
        let bare = serde_bare::to_vec(&s).ok();
        let back: Option<SignatureSchemes> = bare.as_ref().and_then(|b| serde_bare::from_slice(b).ok());
        let js = serde_json::to_vec(&s).ok();
        let backj: Option<SignatureSchemes> = js.as_ref().and_then(|b| serde_json::from_slice(b).ok());
        let via_u8 = SignatureSchemes::from(s as u8);
        let via_str: Option<SignatureSchemes> = s.to_string().parse().ok();
        let ok = back == Some(s) && backj == Some(s) && via_u8 == s && via_str == Some(s) && SignatureSchemes::from(s.to_string().as_str()) == s && bare.as_ref().map(|b| b.len()) == Some(1);
        ctx.expect(ok, "C15/roundtrip/SignatureSchemes", || json!({"what":"SignatureSchemes does not survive an encoding","value":s.to_string()}));
        ctx.hit("enums/SignatureSchemes", &[&[s as u8]]);
    }
    for b in [Bls12381::G1, Bls12381::G2] {
        let bare = serde_bare::to_vec(&b).ok();
        let back: Option<Bls12381> = bare.as_ref().and_then(|x| serde_bare::from_slice(x).ok());
        let js = serde_json::to_vec(&b).ok();
        let backj: Option<Bls12381> = js.as_ref().and_then(|x| serde_json::from_slice(x).ok());
        let via_u8 = Bls12381::try_from(u8::from(b)).ok();
        let via_str: Option<Bls12381> = b.to_string().parse().ok();
        let ok = back == Some(b) && backj == Some(b) && via_u8 == Some(b) && via_str == Some(b);
        ctx.expect(ok, "C15/roundtrip/Bls12381", || json!({"what":"Bls12381 does not survive an encoding","value":b.to_string()}));
        ctx.hit("enums/Bls12381", &[&[u8::from(b)]]);
    }
    ctx.sample("enums/Bls12381", || json!({"types":"SignatureSchemes x3, Bls12381 x2 through serde_bare, serde_json, u8 and str"}));
}
