//! C16 - decoding never yields an invalid point, a zero key or a mis-sized value.

use super::util::*;
use crate::codec::{self, Env, PtKind, Subject, Visitor};
use crate::gen;
use crate::refimpl::{self, PointClass, Scheme, RG};
use crate::suite::*;
use crate::{for_both, hx, Ctx, Tier};
use blsful::*;
use rand_chacha::ChaCha20Rng;
use rand_core::RngCore;
use serde_json::json;

pub const RULE: &str = "for every data type with byte conversions (26) x 2 groups x {bytes, serde_bare, serde_json}: take honest encodings (one per variant), locate every decoder-validated point inside the encoding, and replace it by (a) on-curve points OUTSIDE the prime-order subgroup (found by scanning x with the reference's unchecked decompression; 4 quick / 8 thorough per group, both y signs), (b) x-coordinates with no curve point, (c) flag-bit variants (compression bit cleared, infinity bit with non-zero body, sort bit on infinity, x >= p, all-ones), then decode. Plus (d) every truncation length of every encoding (a strict prefix must be rejected), +1/+32 extensions (must be rejected by the exact-length types: keys, proofs of possession, commitments, scalars), all-zero scalars through every byte importer, the encodings 0, 1, r-1, r, r+1, 2r, 2r+1, 2^255, 2^256-1 through all 15 scalar importers (whatever is accepted must be non-zero), and seeded random byte strings per decoder (2k quick / 40k thorough per suite). ORACLE (independent validator): whenever a decoder returns Ok, every point re-extracted from the returned value must classify as a subgroup point under the reference's checked decompression - lenient-but-safe decoding is NOT an alarm. Share containers hold unparsed payloads: the same bad payloads are planted in SignatureShare / PublicKeyShare / SignDecryptionShare / ElGamalDecryptionShare and every combining / verifying entry point must return an error. Distinct by (suite,type,codec,mutated bytes); non-trivial = the mutated input reached a decoder's point/scalar validation (counted separately: inputs the independent validator itself classifies, and how many decoders accepted). Sibling payloads: for every share type a point outside the subgroup whose encoding shares its first (resp. last) half with a valid payload is presented directly after that valid payload - as a further share in the same call, in the next call, and to the share verifier - and must be refused each time (validation at every use, whatever was validated before). At validated point positions, substituted bytes that the reference cannot decode to a subgroup point (off-curve x, non-subgroup point, malformed flags incl. the infinity flag with any low bit set) must be refused outright - returning some valid point for them is a violation too. JSON documents are also truncated structurally: every tuple-like array with its last / first element removed or emptied and every object with one field removed must be refused.";

pub fn run(ctx: &mut Ctx) {
    for_both!(run_suite, ctx);
}

struct V<'a> {
    ctx: &'a mut Ctx,
    suite: &'static str,
    base: u64,
    idx: u64,
    bad_sig: Vec<(String, Vec<u8>)>,
    bad_pk: Vec<(String, Vec<u8>)>,
    n_random: usize,
}

fn find(hay: &[u8], needle: &[u8]) -> Option<usize> {
    if needle.is_empty() || hay.len() < needle.len() {
        return None;
    }
    (0..=hay.len() - needle.len()).find(|&i| &hay[i..i + needle.len()] == needle)
}

/// the independent validator: every decoder-validated point of a returned value must be a
/// subgroup point
fn validate<C: Suite, T: Subject<C>>(v: &T) -> Result<(), String> {
    for (name, kind, bytes) in v.points() {
        let class = match kind {
            PtKind::Sig => RSig::<C>::classify(&bytes),
            PtKind::Pk => RPk::<C>::classify(&bytes),
            _ => continue,
        };
        match class {
            PointClass::Valid | PointClass::Identity => {}
            other => return Err(format!("point `{name}` of the returned value is {other:?}: {}", hex::encode(&bytes))),
        }
    }
    Ok(())
}

impl<'a> V<'a> {
    fn decode_and_judge<C: Suite, T: Subject<C>>(&mut self, codec: &str, input: &[u8], kind: &str, must_reject: bool) {
        let n = self.suite;
        let tn = T::NAME;
        let entry = format!("{tn}::decode/{codec}");
        let r = self.ctx.guard(&entry, || json!({"input":hx(input)}), || match codec {
            "bytes" => T::w_from(input),
            "bare" => T::from_bare(input),
            _ => T::from_json(input),
        });
        let Some(r) = r else { return };
        let cell = format!("{n}/{tn}/{codec}/{kind}");
        match r {
            Err(_) => {
                self.ctx.hit(&cell, &[input]);
                self.ctx.count("rejected", 1);
            }
            Ok(v) => {
                self.ctx.count("accepted", 1);
                if let Err(e) = validate::<C, T>(&v) {
                    self.ctx.violation(&format!("C16/invalid-point-accepted/{n}/{tn}/{codec}"), json!({"what":"a decoder returned a value holding a point that is not in the prime-order subgroup","type":tn,"codec":codec,"mutation":kind,"input":hx(input),"validator":e}));
                } else if must_reject {
                    self.ctx.violation(&format!("C16/{kind}-accepted/{n}/{tn}/{codec}"), json!({"what":"input that must be rejected was accepted","type":tn,"codec":codec,"mutation":kind,"input":hx(input)}));
                }
                self.ctx.hit(&cell, &[input]);
            }
        }
    }
}

impl<'a, C: Suite> Visitor<C> for V<'a> {
    fn visit<T: Subject<C>>(&mut self, env: &Env<C>, _rng: &mut ChaCha20Rng) {
        self.idx += 1;
        let g = self.base + self.idx;
        if !self.ctx.mine(g) {
            return;
        }
        let mut rng = self.ctx.rng(g);
        let _ = rng.next_u32();
        let n = self.suite;
        let tn = T::NAME;
        let thorough = self.ctx.tier == Tier::Thorough;
        // one honest sample per variant (first occurrence), skipping identity-edge samples
        let mut seen = std::collections::BTreeSet::new();
        let mut picks: Vec<(String, T)> = Vec::new();
        let mut sr = self.ctx.rng_l(g, "samples");
        for (label, x) in T::samples(env, &mut sr, false) {
            if label.contains("identity") || label.contains("generator") || label.contains("zero") || label == "ones" || label.ends_with("/ones") {
                // (exact match: "honest" contains the letters "ones" and must NOT be skipped)
                continue;
            }
            if seen.insert(x.variant()) {
                picks.push((label, x));
            }
        }
        let _ = rng.next_u32();
        for (_label, x) in &picks {
            let encs: Vec<(&str, Vec<u8>)> = vec![("bytes", x.w_bytes()), ("bare", x.bare().unwrap_or_default()), ("json", x.json().unwrap_or_default())];
            let pts = x.points();
            for (codec, enc) in &encs {
                // (d) truncation at every length: strict prefixes must be rejected
                self.ctx.require(&format!("{n}/{tn}/{codec}/truncated"));
                let cuts: Vec<usize> = if enc.len() <= 400 || thorough { (0..enc.len()).collect() } else { (0..200).chain(enc.len() - 100..enc.len()).collect() };
                for cut in cuts {
                    self.decode_and_judge::<C, T>(codec, &enc[..cut], "truncated", true);
                }
                // extensions
                for ext in [1usize, 32] {
                    let mut e = enc.clone();
                    e.extend(std::iter::repeat(0u8).take(ext));
                    let must = *codec == "bytes" && T::EXACT_LEN || *codec == "json";
                    self.decode_and_judge::<C, T>(codec, &e, "extended", must);
                }
                // JSON: length changes INSIDE every hex string (one or two characters more or
                // fewer); truncation must always be rejected, any other length must be rejected by
                // the exact-length types, and whatever is accepted must still hold valid points
                if *codec == "json" {
                    if let Ok(doc) = serde_json::from_slice::<serde_json::Value>(enc) {
                        self.ctx.require(&format!("{n}/{tn}/json/string-length"));
                        for (_name, bytes) in json_structural_truncations(&doc) {
                            self.decode_and_judge::<C, T>("json", &bytes, "structurally-truncated", true);
                            self.ctx.hit(&format!("{n}/{tn}/json/string-length"), &[&bytes]);
                        }
                        for (kind, bytes) in json_length_variants(&doc) {
                            let must = kind == "string-truncated" || T::EXACT_LEN;
                            self.decode_and_judge::<C, T>("json", &bytes, kind, must);
                            self.ctx.hit(&format!("{n}/{tn}/json/string-length"), &[&bytes]);
                        }
                    }
                }
                // point substitution
                for (pname, kind, pbytes) in &pts {
                    let bad = match kind {
                        PtKind::Sig => &self.bad_sig,
                        PtKind::Pk => &self.bad_pk,
                        _ => continue,
                    };
                    let bad = bad.clone();
                    let (needle, is_json) = if *codec == "json" { (hex::encode(pbytes).into_bytes(), true) } else { (pbytes.clone(), false) };
                    let Some(off) = find(enc, &needle) else {
                        self.ctx.harness_error(format!("C16: cannot locate point {pname} of {tn} in its {codec} encoding"));
                        continue;
                    };
                    self.ctx.require(&format!("{n}/{tn}/{codec}/non-subgroup"));
                    self.ctx.require(&format!("{n}/{tn}/{codec}/off-curve"));
                    self.ctx.require(&format!("{n}/{tn}/{codec}/flags"));
                    for (bkind, b) in bad {
                        let rep = if is_json { hex::encode(&b).into_bytes() } else { b.clone() };
                        let mut e = enc.clone();
                        e[off..off + needle.len()].copy_from_slice(&rep);
                        let k = bkind.split('/').next().unwrap_or("bad").to_string();
                        // bytes the reference cannot decode to a subgroup point (off the curve, outside
                        // the subgroup, malformed flags) must be REFUSED at a validated position -
                        // mapping them to some valid point (e.g. the identity) is not decoding
                        let class = match kind {
                            PtKind::Sig => RSig::<C>::classify(&b),
                            _ => RPk::<C>::classify(&b),
                        };
                        let must = !matches!(class, PointClass::Valid | PointClass::Identity);
                        self.decode_and_judge::<C, T>(codec, &e, &k, must);
                        self.ctx.count(&format!("substituted/{bkind}"), 1);
                    }
                }
            }
            // zero scalars through the byte importer
            if !x.nonzero_scalars().is_empty() {
                self.ctx.require(&format!("{n}/{tn}/bytes/zero-scalar"));
                let enc = x.w_bytes();
                for s in x.nonzero_scalars() {
                    if let Some(off) = find(&enc, &s) {
                        let mut e = enc.clone();
                        for b in &mut e[off..off + 32] {
                            *b = 0;
                        }
                        self.decode_and_judge::<C, T>("bytes", &e, "zero-scalar", true);
                    } else {
                        self.ctx.harness_error(format!("C16: cannot locate scalar of {tn}"));
                    }
                }
            }
        }
        // random byte strings per decoder family
        if let Some((_, x)) = picks.first() {
            let lens: Vec<usize> = vec![x.w_bytes().len(), x.bare().map(|b| b.len()).unwrap_or(1)];
            for i in 0..self.n_random {
                let (codec, len) = if i % 2 == 0 { ("bytes", lens[0]) } else { ("bare", lens[1]) };
                let len = if i % 7 == 0 { gen::below(&mut rng, len + 40) } else { len };
                let mut b = gen::random_bytes(len, &mut rng);
                // make a share of them look like compressed points so they get past the flag check
                if i % 3 != 0 && !b.is_empty() {
                    b[0] = (b[0] & 0x1f) | 0x80;
                }
                self.ctx.require(&format!("{n}/{tn}/{codec}/random"));
                self.decode_and_judge::<C, T>(codec, &b, "random", false);
            }
        }
    }
}

fn bad_points<G: RG>(thorough: bool) -> Vec<(String, Vec<u8>)> {
    let mut out = Vec::new();
    let n = if thorough { 8 } else { 4 };
    for (i, p) in refimpl::non_subgroup_points::<G>(1, n).into_iter().enumerate() {
        out.push((format!("non-subgroup/{i}"), p));
    }
    for (i, p) in refimpl::off_curve_x::<G>(1, if thorough { 4 } else { 2 }).into_iter().enumerate() {
        out.push((format!("off-curve/{i}"), p));
    }
    // flag variants, built on a valid point
    let valid = G::gen().mul(&refimpl::RS::from(7u64)).enc();
    let mut f = valid.clone();
    f[0] &= 0x7f; // compression bit cleared
    out.push(("flags/compression-bit-cleared".into(), f));
    let mut f = valid.clone();
    f[0] |= 0x40; // infinity bit with non-zero body
    out.push(("flags/infinity-with-body".into(), f));
    let mut f = vec![0u8; G::LEN];
    f[0] = 0xc0 | 0x20; // sort bit on infinity
    out.push(("flags/sort-bit-on-infinity".into(), f));
    // the infinity flag with any of the low six bits of the first byte set, rest zero
    let lows: Vec<u8> = if thorough { (1u8..=0x3f).collect() } else { vec![0x01, 0x08, 0x10, 0x1f, 0x3f] };
    for b in lows {
        let mut f = vec![0u8; G::LEN];
        f[0] = 0xc0 | b;
        out.push((format!("flags/infinity-with-low-bits-{b:02x}"), f));
    }
    let mut f = vec![0u8; G::LEN];
    f[0] = 0x40; // infinity flag without the compression flag
    out.push(("flags/infinity-uncompressed-flag".into(), f));
    let mut f = vec![0xffu8; G::LEN];
    f[0] = 0x9f; // x >= p
    out.push(("flags/x>=p".into(), f));
    out.push(("flags/all-ones".into(), vec![0xffu8; G::LEN]));
    out.push(("flags/all-zero".into(), vec![0u8; G::LEN]));
    let mut f = valid.clone();
    f[0] ^= 0x20; // other sign: still a valid point (must be accepted or rejected safely)
    out.push(("flags/other-sign".into(), f));
    out
}

fn run_suite<C: Suite>(ctx: &mut Ctx) {
    let base: u64 = if C::NAME == "G1Impl" { 0 } else { 1 << 32 };
    let thorough = ctx.tier == Tier::Thorough;
    let bad_sig = bad_points::<RSig<C>>(thorough);
    let bad_pk = bad_points::<RPk<C>>(thorough);
    // sanity of the generators themselves (the validator must classify them as intended)
    for (k, b) in bad_sig.iter() {
        let c = RSig::<C>::classify(b);
        if k.starts_with("non-subgroup") && c != PointClass::NotInSubgroup || k.starts_with("off-curve") && c != PointClass::Undecodable {
            ctx.harness_error(format!("bad point generator produced {c:?} for {k}"));
        }
    }
    let mut erng = ctx.rng_l(base, "env");
    let env = Env::<C>::new(&mut erng);
    let n_random = ctx.tier.pick(80, 1600);
    {
        let mut v = V { ctx, suite: C::NAME, base, idx: 0, bad_sig: bad_sig.clone(), bad_pk: bad_pk.clone(), n_random };
        codec::visit_all::<C, _>(&mut v, &env, &mut erng);
    }
    // share containers: validated when used
    if ctx.mine(base + 1000) {
        shares::<C>(ctx, &env, &bad_sig, &bad_pk);
    }
    ctx.require(&format!("{}/scalar-importers/never-zero", C::NAME));
    if ctx.mine(base + 1001) {
        scalar_importers::<C>(ctx);
    }
    for c in ["Signature::from_shares", "PublicKey::from_shares", "SignCryptDecryptionKey::from_shares", "ElGamalDecryptionKey::from_shares", "PublicKeyShare::verify/sig-payload", "PublicKeyShare::verify/pk-payload", "SignDecryptionShare::verify/share-payload", "SignDecryptionShare::verify/pk-payload"] {
        ctx.require(&format!("{}/shares/{c}", C::NAME));
    }
}

fn shares<C: Suite>(ctx: &mut Ctx, env: &Env<C>, bad_sig: &[(String, Vec<u8>)], bad_pk: &[(String, Vec<u8>)]) {
    let n = C::NAME;
    let msg = &env.msg;
    let good_sig: Vec<SignatureShare<C>> = env.shares.iter().map(|s| s.sign(SignatureSchemes::Basic, msg).unwrap()).collect();
    let ct = env.pk.sign_crypt(SignatureSchemes::Basic, msg);
    let good_ds: Vec<SignDecryptionShare<C>> = env.shares.iter().map(|s| ct.create_decryption_share(s).unwrap()).collect();
    let eg = env.pk.encrypt_key_el_gamal(&env.sk2).unwrap();
    let good_eg: Vec<ElGamalDecryptionShare<C>> = env.shares.iter().map(|s| ElGamalDecryptionShare(<C as BlsSignatureCore>::public_key_share_with_generator(&s.0, eg.c1).unwrap())).collect();
    // positive twins
    let twins = Signature::<C>::from_shares(&good_sig[..2]).is_ok()
        && PublicKey::<C>::from_shares(&env.pk_shares[..2]).is_ok()
        && SignCryptDecryptionKey::<C>::from_shares(&good_ds[..2]).is_ok()
        && ElGamalDecryptionKey::<C>::from_shares(&good_eg[..2]).is_ok()
        && env.pk_shares[0].verify(&good_sig[0], msg).is_ok()
        && good_ds[0].verify(&env.pk_shares[0], &ct).is_ok();
    if !twins {
        ctx.harness_error("C16 share twins failed".into());
        return;
    }
    let id0 = 1u8;
    for (bk, b) in bad_sig.iter().filter(|(k, _)| !k.contains("other-sign")) {
        let bad = wrap_sig_share::<C>(Scheme::Basic, sig_share_raw::<C>(id0, b));
        for (pos, set) in [("first", vec![bad, good_sig[1]]), ("last", vec![good_sig[1], bad]), ("middle", vec![good_sig[1], bad, good_sig[2]])] {
            let r = ctx.guard("Signature::from_shares", || json!({"bad":bk}), || Signature::<C>::from_shares(&set).is_ok());
            ctx.expect(r == Some(false), &format!("C16/invalid-share-payload-accepted/{n}/Signature::from_shares"), || json!({"what":"share combination accepted an invalid payload","payload_class":bk,"payload":hex::encode(b),"position":pos}));
            ctx.hit(&format!("{n}/shares/Signature::from_shares"), &[bk.as_bytes(), pos.as_bytes()]);
        }
        let r = ctx.guard("PublicKeyShare::verify", || json!({"bad":bk}), || env.pk_shares[0].verify(&bad, msg).is_ok());
        ctx.expect(r == Some(false), &format!("C16/invalid-share-payload-accepted/{n}/PublicKeyShare::verify(sig)"), || json!({"payload_class":bk,"payload":hex::encode(b)}));
        ctx.hit(&format!("{n}/shares/PublicKeyShare::verify/sig-payload"), &[bk.as_bytes()]);
    }
    for (bk, b) in bad_pk.iter().filter(|(k, _)| !k.contains("other-sign")) {
        let bad_inner = pk_share_raw::<C>(id0, b);
        let bad = PublicKeyShare::<C>(bad_inner);
        for (pos, set) in [("first", vec![bad, env.pk_shares[1]]), ("last", vec![env.pk_shares[1], bad]), ("middle", vec![env.pk_shares[1], bad, env.pk_shares[2]])] {
            let r = ctx.guard("PublicKey::from_shares", || json!({"bad":bk}), || PublicKey::<C>::from_shares(&set).is_ok());
            ctx.expect(r == Some(false), &format!("C16/invalid-share-payload-accepted/{n}/PublicKey::from_shares"), || json!({"payload_class":bk,"payload":hex::encode(b),"position":pos}));
            ctx.hit(&format!("{n}/shares/PublicKey::from_shares"), &[bk.as_bytes(), pos.as_bytes()]);
        }
        let r = ctx.guard("PublicKeyShare::verify", || json!({"bad":bk}), || bad.verify(&good_sig[0], msg).is_ok());
        ctx.expect(r == Some(false), &format!("C16/invalid-share-payload-accepted/{n}/PublicKeyShare::verify(pk)"), || json!({"payload_class":bk,"payload":hex::encode(b)}));
        ctx.hit(&format!("{n}/shares/PublicKeyShare::verify/pk-payload"), &[bk.as_bytes()]);
        let bad_ds = SignDecryptionShare::<C>(bad_inner);
        for (pos, set) in [("first", vec![bad_ds.clone(), good_ds[1].clone()]), ("last", vec![good_ds[1].clone(), bad_ds.clone()])] {
            let r = ctx.guard("SignCryptDecryptionKey::from_shares", || json!({"bad":bk}), || SignCryptDecryptionKey::<C>::from_shares(&set).is_ok());
            ctx.expect(r == Some(false), &format!("C16/invalid-share-payload-accepted/{n}/SignCryptDecryptionKey::from_shares"), || json!({"payload_class":bk,"payload":hex::encode(b),"position":pos}));
            ctx.hit(&format!("{n}/shares/SignCryptDecryptionKey::from_shares"), &[bk.as_bytes(), pos.as_bytes()]);
            // decrypt_with_shares must not hand back the message when a payload is invalid
            let r = ctx.guard("SignCryptCiphertext::decrypt_with_shares", || json!({"bad":bk}), || ct_some(ct.decrypt_with_shares(&set)));
            if let Some(r) = r {
                ctx.expect(r.as_deref() != Some(&msg[..]), &format!("C16/invalid-share-payload-accepted/{n}/decrypt_with_shares"), || json!({"payload_class":bk}));
            }
        }
        let r = ctx.guard("SignDecryptionShare::verify", || json!({"bad":bk}), || bad_ds.verify(&env.pk_shares[0], &ct).is_ok());
        ctx.expect(r == Some(false), &format!("C16/invalid-share-payload-accepted/{n}/SignDecryptionShare::verify(share)"), || json!({"payload_class":bk,"payload":hex::encode(b)}));
        ctx.hit(&format!("{n}/shares/SignDecryptionShare::verify/share-payload"), &[bk.as_bytes()]);
        let r = ctx.guard("SignDecryptionShare::verify", || json!({"bad":bk}), || good_ds[0].verify(&bad, &ct).is_ok());
        ctx.expect(r == Some(false), &format!("C16/invalid-share-payload-accepted/{n}/SignDecryptionShare::verify(pk)"), || json!({"payload_class":bk,"payload":hex::encode(b)}));
        ctx.hit(&format!("{n}/shares/SignDecryptionShare::verify/pk-payload"), &[bk.as_bytes()]);
        let bad_eg = ElGamalDecryptionShare::<C>(bad_inner);
        for (pos, set) in [("first", vec![bad_eg.clone(), good_eg[1].clone()]), ("last", vec![good_eg[1].clone(), bad_eg.clone()])] {
            let r = ctx.guard("ElGamalDecryptionKey::from_shares", || json!({"bad":bk}), || ElGamalDecryptionKey::<C>::from_shares(&set).is_ok());
            ctx.expect(r == Some(false), &format!("C16/invalid-share-payload-accepted/{n}/ElGamalDecryptionKey::from_shares"), || json!({"payload_class":bk,"payload":hex::encode(b),"position":pos}));
            ctx.hit(&format!("{n}/shares/ElGamalDecryptionKey::from_shares"), &[bk.as_bytes(), pos.as_bytes()]);
        }
    }
    // siblings: a point outside the subgroup whose encoding shares its first (or last) half with a
    // VALID payload, presented directly after that valid payload was decoded - in the same call
    // (as a further share) and in the next call. Validation happens at every use.
    for keep_prefix in [true, false] {
        let kn = if keep_prefix { "sibling-same-first-half" } else { "sibling-same-last-half" };
        let (_, sp) = sig_share_parts::<C>(&good_sig[1]);
        if let Some(b) = refimpl::non_subgroup_sibling::<RSig<C>>(&sp, keep_prefix) {
            let bad = wrap_sig_share::<C>(Scheme::Basic, sig_share_raw::<C>(3, &b));
            let same_call = vec![good_sig[0], good_sig[1], bad];
            let r = ctx.guard("Signature::from_shares", || json!({"bad":kn}), || Signature::<C>::from_shares(&same_call).is_ok());
            ctx.expect(r == Some(false), &format!("C16/invalid-share-payload-accepted/{n}/Signature::from_shares"), || json!({"what":"share combination accepted a payload outside the subgroup directly after its valid sibling","payload_class":kn,"payload":hex::encode(&b),"valid_sibling":hex::encode(&sp),"sequence":"one call: [good, sibling, bad]"}));
            let next_call = vec![bad, good_sig[0]];
            let r = ctx.guard("Signature::from_shares", || json!({"bad":kn}), || (Signature::<C>::from_shares(&good_sig[..2]).is_ok(), Signature::<C>::from_shares(&next_call).is_ok()));
            ctx.expect(r == Some((true, false)), &format!("C16/invalid-share-payload-accepted/{n}/Signature::from_shares"), || json!({"payload_class":kn,"payload":hex::encode(&b),"valid_sibling":hex::encode(&sp),"sequence":"two calls: [good, sibling] then [bad, good]","answers":format!("{r:?}")}));
            let r = ctx.guard("PublicKeyShare::verify", || json!({"bad":kn}), || (env.pk_shares[1].verify(&good_sig[1], msg).is_ok(), env.pk_shares[1].verify(&bad, msg).is_ok()));
            ctx.expect(r == Some((true, false)), &format!("C16/invalid-share-payload-accepted/{n}/PublicKeyShare::verify(sig)"), || json!({"payload_class":kn,"payload":hex::encode(&b),"answers":format!("{r:?}")}));
            ctx.hit(&format!("{n}/shares/Signature::from_shares"), &[kn.as_bytes()]);
        } else {
            ctx.harness_error("no sibling point found (signature share)".into());
        }
        let (_, pp) = pk_share_parts::<C>(&env.pk_shares[1]);
        if let Some(b) = refimpl::non_subgroup_sibling::<RPk<C>>(&pp, keep_prefix) {
            let bad = PublicKeyShare::<C>(pk_share_raw::<C>(3, &b));
            let same_call = vec![env.pk_shares[0], env.pk_shares[1], bad];
            let r = ctx.guard("PublicKey::from_shares", || json!({"bad":kn}), || PublicKey::<C>::from_shares(&same_call).is_ok());
            ctx.expect(r == Some(false), &format!("C16/invalid-share-payload-accepted/{n}/PublicKey::from_shares"), || json!({"payload_class":kn,"payload":hex::encode(&b),"valid_sibling":hex::encode(&pp),"sequence":"one call: [good, sibling, bad]"}));
            let next_call = vec![bad, env.pk_shares[0]];
            let r = ctx.guard("PublicKey::from_shares", || json!({"bad":kn}), || (PublicKey::<C>::from_shares(&env.pk_shares[..2]).is_ok(), PublicKey::<C>::from_shares(&next_call).is_ok()));
            ctx.expect(r == Some((true, false)), &format!("C16/invalid-share-payload-accepted/{n}/PublicKey::from_shares"), || json!({"payload_class":kn,"payload":hex::encode(&b),"sequence":"two calls","answers":format!("{r:?}")}));
            let r = ctx.guard("PublicKeyShare::verify", || json!({"bad":kn}), || (env.pk_shares[1].verify(&good_sig[1], msg).is_ok(), bad.verify(&good_sig[1], msg).is_ok()));
            ctx.expect(r == Some((true, false)), &format!("C16/invalid-share-payload-accepted/{n}/PublicKeyShare::verify(pk)"), || json!({"payload_class":kn,"payload":hex::encode(&b),"answers":format!("{r:?}")}));
            ctx.hit(&format!("{n}/shares/PublicKey::from_shares"), &[kn.as_bytes()]);
        } else {
            ctx.harness_error("no sibling point found (public-key share)".into());
        }
        let dsp = Vec::from(&good_ds[1])[1..].to_vec();
        if let Some(b) = refimpl::non_subgroup_sibling::<RPk<C>>(&dsp, keep_prefix) {
            let bad = SignDecryptionShare::<C>(pk_share_raw::<C>(3, &b));
            let same_call = vec![good_ds[0].clone(), good_ds[1].clone(), bad.clone()];
            let r = ctx.guard("SignCryptDecryptionKey::from_shares", || json!({"bad":kn}), || SignCryptDecryptionKey::<C>::from_shares(&same_call).is_ok());
            ctx.expect(r == Some(false), &format!("C16/invalid-share-payload-accepted/{n}/SignCryptDecryptionKey::from_shares"), || json!({"payload_class":kn,"payload":hex::encode(&b),"valid_sibling":hex::encode(&dsp),"sequence":"one call: [good, sibling, bad]"}));
            let next_call = vec![bad.clone(), good_ds[0].clone()];
            let r = ctx.guard("SignCryptDecryptionKey::from_shares", || json!({"bad":kn}), || (SignCryptDecryptionKey::<C>::from_shares(&good_ds[..2]).is_ok(), SignCryptDecryptionKey::<C>::from_shares(&next_call).is_ok()));
            ctx.expect(r == Some((true, false)), &format!("C16/invalid-share-payload-accepted/{n}/SignCryptDecryptionKey::from_shares"), || json!({"payload_class":kn,"payload":hex::encode(&b),"sequence":"two calls","answers":format!("{r:?}")}));
            let r = ctx.guard("SignDecryptionShare::verify", || json!({"bad":kn}), || (good_ds[1].verify(&env.pk_shares[1], &ct).is_ok(), bad.verify(&env.pk_shares[1], &ct).is_ok()));
            ctx.expect(r == Some((true, false)), &format!("C16/invalid-share-payload-accepted/{n}/SignDecryptionShare::verify(share)"), || json!({"payload_class":kn,"payload":hex::encode(&b),"answers":format!("{r:?}")}));
            ctx.hit(&format!("{n}/shares/SignCryptDecryptionKey::from_shares"), &[kn.as_bytes()]);
        } else {
            ctx.harness_error("no sibling point found (decryption share)".into());
        }
        let egp = Vec::from(&good_eg[1])[1..].to_vec();
        if let Some(b) = refimpl::non_subgroup_sibling::<RPk<C>>(&egp, keep_prefix) {
            let bad = ElGamalDecryptionShare::<C>(pk_share_raw::<C>(3, &b));
            let same_call = vec![good_eg[0].clone(), good_eg[1].clone(), bad.clone()];
            let r = ctx.guard("ElGamalDecryptionKey::from_shares", || json!({"bad":kn}), || ElGamalDecryptionKey::<C>::from_shares(&same_call).is_ok());
            ctx.expect(r == Some(false), &format!("C16/invalid-share-payload-accepted/{n}/ElGamalDecryptionKey::from_shares"), || json!({"payload_class":kn,"payload":hex::encode(&b),"valid_sibling":hex::encode(&egp),"sequence":"one call: [good, sibling, bad]"}));
            let next_call = vec![bad, good_eg[0].clone()];
            let r = ctx.guard("ElGamalDecryptionKey::from_shares", || json!({"bad":kn}), || (ElGamalDecryptionKey::<C>::from_shares(&good_eg[..2]).is_ok(), ElGamalDecryptionKey::<C>::from_shares(&next_call).is_ok()));
            ctx.expect(r == Some((true, false)), &format!("C16/invalid-share-payload-accepted/{n}/ElGamalDecryptionKey::from_shares"), || json!({"payload_class":kn,"payload":hex::encode(&b),"sequence":"two calls","answers":format!("{r:?}")}));
            ctx.hit(&format!("{n}/shares/ElGamalDecryptionKey::from_shares"), &[kn.as_bytes()]);
        } else {
            ctx.harness_error("no sibling point found (ElGamal decryption share)".into());
        }
    }
    ctx.sample(&format!("{n}/shares/Signature::from_shares"), || json!({"bad_payload_classes": bad_sig.iter().map(|(k,_)| k.clone()).collect::<Vec<_>>() }));
}

/// structural truncations of a JSON document: every tuple-like array (its elements are not all
/// numbers) with its last / first element removed or emptied, and every object with one field
/// removed. A document cut short in this way is well-formed JSON, but it is a truncated encoding.
fn json_structural_truncations(doc: &serde_json::Value) -> Vec<(String, Vec<u8>)> {
    fn paths(v: &serde_json::Value, path: &mut Vec<String>, acc: &mut Vec<Vec<String>>) {
        match v {
            serde_json::Value::Array(a) => {
                if !a.is_empty() && !a.iter().all(|x| x.is_number()) {
                    acc.push(path.clone());
                }
                for (i, x) in a.iter().enumerate().take(4) {
                    path.push(i.to_string());
                    paths(x, path, acc);
                    path.pop();
                }
            }
            serde_json::Value::Object(o) => {
                acc.push(path.clone());
                for (k, x) in o {
                    path.push(k.clone());
                    paths(x, path, acc);
                    path.pop();
                }
            }
            _ => {}
        }
    }
    fn at<'a>(v: &'a mut serde_json::Value, path: &[String]) -> Option<&'a mut serde_json::Value> {
        let mut cur = v;
        for p in path {
            cur = match cur {
                serde_json::Value::Array(a) => a.get_mut(p.parse::<usize>().ok()?)?,
                serde_json::Value::Object(o) => o.get_mut(p)?,
                _ => return None,
            };
        }
        Some(cur)
    }
    let mut acc = Vec::new();
    paths(doc, &mut Vec::new(), &mut acc);
    let mut out = Vec::new();
    for p in acc {
        let mut variants: Vec<(String, serde_json::Value)> = Vec::new();
        let mut d = doc.clone();
        match at(&mut d, &p) {
            Some(serde_json::Value::Array(a)) => {
                let n = a.len();
                let mut x = doc.clone();
                if let Some(serde_json::Value::Array(b)) = at(&mut x, &p) { b.pop(); }
                variants.push((format!("array{}-last-removed", p.join(".")), x));
                if n > 1 {
                    let mut x = doc.clone();
                    if let Some(serde_json::Value::Array(b)) = at(&mut x, &p) { b.remove(0); }
                    variants.push((format!("array{}-first-removed", p.join(".")), x));
                }
                let mut x = doc.clone();
                if let Some(serde_json::Value::Array(b)) = at(&mut x, &p) { b.clear(); }
                variants.push((format!("array{}-emptied", p.join(".")), x));
            }
            Some(serde_json::Value::Object(o)) => {
                let keys: Vec<String> = o.keys().cloned().collect();
                for k in keys {
                    let mut x = doc.clone();
                    if let Some(serde_json::Value::Object(b)) = at(&mut x, &p) { b.remove(&k); }
                    variants.push((format!("object{}-field-{k}-removed", p.join(".")), x));
                }
            }
            _ => {}
        }
        for (name, v) in variants {
            if let Ok(b) = serde_json::to_vec(&v) {
                out.push((name, b));
            }
        }
    }
    out
}

/// every string leaf of a JSON document with 1 or 2 hex characters appended / removed
fn json_length_variants(doc: &serde_json::Value) -> Vec<(&'static str, Vec<u8>)> {
    fn leaves(v: &serde_json::Value, path: &mut Vec<String>, acc: &mut Vec<Vec<String>>) {
        match v {
            serde_json::Value::String(_) => acc.push(path.clone()),
            serde_json::Value::Array(a) => {
                for (i, x) in a.iter().enumerate() {
                    if a.len() > 8 && i >= 2 {
                        continue;
                    }
                    path.push(i.to_string());
                    leaves(x, path, acc);
                    path.pop();
                }
            }
            serde_json::Value::Object(m) => {
                for (k, x) in m {
                    path.push(k.clone());
                    leaves(x, path, acc);
                    path.pop();
                }
            }
            _ => {}
        }
    }
    fn get_mut<'a>(v: &'a mut serde_json::Value, path: &[String]) -> Option<&'a mut serde_json::Value> {
        let mut cur = v;
        for p in path {
            cur = match cur {
                serde_json::Value::Array(a) => a.get_mut(p.parse::<usize>().ok()?)?,
                serde_json::Value::Object(m) => m.get_mut(p)?,
                _ => return None,
            };
        }
        Some(cur)
    }
    let mut paths = Vec::new();
    leaves(doc, &mut Vec::new(), &mut paths);
    let mut out = Vec::new();
    for path in paths {
        let mut d0 = doc.clone();
        let Some(serde_json::Value::String(s)) = get_mut(&mut d0, &path).cloned() else { continue };
        // only hex payloads (scheme / curve names are not length-mutated)
        if s.len() < 16 || !s.bytes().all(|b| b.is_ascii_hexdigit()) {
            continue;
        }
        let mut variants: Vec<(&'static str, String)> = vec![
            ("string-extended", format!("{s}0")),
            ("string-extended", format!("{s}f")),
            ("string-extended", format!("{s}00")),
            ("string-extended", format!("0{s}")),
            ("string-truncated", s[..s.len() - 1].to_string()),
            ("string-truncated", s[..s.len() - 2].to_string()),
            ("string-truncated", s[1..].to_string()),
        ];
        for (kind, t) in variants.drain(..) {
            let mut d = doc.clone();
            if let Some(slot) = get_mut(&mut d, &path) {
                *slot = serde_json::Value::String(t);
                out.push((kind, serde_json::to_vec(&d).unwrap()));
            }
        }
    }
    out
}

/// Every scalar byte importer on the special encodings around the group order: whatever is
/// ACCEPTED must be a non-zero scalar (r and 2r are non-canonical encodings of zero).
fn scalar_importers<C: Suite>(ctx: &mut Ctx) {
    let n = C::NAME;
    for (name, be) in gen::special_scalar_encodings() {
        let mut le = be;
        le.reverse();
        let mut tagged_be = vec![u8::from(C::CURVE)];
        tagged_be.extend_from_slice(&be);
        let mut tagged_le = vec![u8::from(C::CURVE)];
        tagged_le.extend_from_slice(&le);
        let zero = [0u8; 32];
        let enum_be = |e: Option<SecretKeyEnum>| e.map(|e| match e { SecretKeyEnum::G1(k) => k.to_be_bytes(), SecretKeyEnum::G2(k) => k.to_be_bytes() });
        let results: Vec<(&str, Option<[u8; 32]>)> = vec![
            ("SecretKey::from_be_bytes", ct_some(SecretKey::<C>::from_be_bytes(&be)).map(|k| k.to_be_bytes())),
            ("SecretKey::from_le_bytes", ct_some(SecretKey::<C>::from_le_bytes(&le)).map(|k| k.to_be_bytes())),
            ("SecretKey::try_from(&[u8])", SecretKey::<C>::try_from(&be[..]).ok().map(|k| k.to_be_bytes())),
            ("SecretKey::try_from(Vec)", SecretKey::<C>::try_from(be.to_vec()).ok().map(|k| k.to_be_bytes())),
            ("SecretKey::try_from(Box)", SecretKey::<C>::try_from(be.to_vec().into_boxed_slice()).ok().map(|k| k.to_be_bytes())),
            ("ProofCommitmentSecret::from_be_bytes", ct_some(ProofCommitmentSecret::<C>::from_be_bytes(&be)).map(|k| k.to_be_bytes())),
            ("ProofCommitmentSecret::from_le_bytes", ct_some(ProofCommitmentSecret::<C>::from_le_bytes(&le)).map(|k| k.to_be_bytes())),
            ("ProofCommitmentSecret::try_from(&[u8])", ProofCommitmentSecret::<C>::try_from(&be[..]).ok().map(|k| k.to_be_bytes())),
            ("ProofCommitmentChallenge::from_be_bytes", ct_some(ProofCommitmentChallenge::<C>::from_be_bytes(&be)).map(|k| k.to_be_bytes())),
            ("ProofCommitmentChallenge::from_le_bytes", ct_some(ProofCommitmentChallenge::<C>::from_le_bytes(&le)).map(|k| k.to_be_bytes())),
            ("ProofCommitmentChallenge::try_from(&[u8])", ProofCommitmentChallenge::<C>::try_from(&be[..]).ok().map(|k| k.to_be_bytes())),
            ("ProofCommitmentChallenge::try_from(Vec)", ProofCommitmentChallenge::<C>::try_from(be.to_vec()).ok().map(|k| k.to_be_bytes())),
            ("SecretKeyEnum::try_from(&[u8])", enum_be(SecretKeyEnum::try_from(tagged_be.as_slice()).ok())),
            ("SecretKeyEnum::from_be_bytes", enum_be(ct_some(SecretKeyEnum::from_be_bytes(&tagged_be)))),
            ("SecretKeyEnum::from_le_bytes", enum_be(ct_some(SecretKeyEnum::from_le_bytes(&tagged_le)))),
        ];
        for (imp, got) in results {
            ctx.expect(got != Some(zero), &format!("C16/zero-scalar-imported/{n}/{imp}"), || {
                json!({"what":"a scalar byte importer returned the ZERO scalar","importer":imp,"input_class":name,"input_be":hex::encode(be)})
            });
            ctx.hit(&format!("{n}/scalar-importers/never-zero"), &[imp.as_bytes(), &be]);
        }
    }
}
