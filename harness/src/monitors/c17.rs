//! C17 - no input makes a decoding, verification or decryption call abort.
//! Oracle: "returned normally" (panic hook + catch_unwind; a worker that dies is an abort too;
//! the parent's watchdog is the hang limit). Run in the checked and the plain release build.

use super::util::*;
use crate::codec::{self, Env, Subject, Visitor};
use crate::gen;
use crate::refimpl::{self, Scheme, RC, RG, RS, SCHEMES};
use crate::suite::*;
use crate::{for_both, hx, Ctx, Tier};
use blsful::inner_types::Field;
use blsful::vsss_rs::Share;
use blsful::*;
use rand_chacha::ChaCha20Rng;
use rand_core::RngCore;
use serde_json::{json, Value};
use std::time::{SystemTime, UNIX_EPOCH};

pub const RULE: &str = "fuzz-shaped, deterministic from the seed, executed in the checked (overflow + debug assertions) AND the plain release build: (1) decoders of all 26 byte-convertible types x {bytes, serde_bare, serde_json} on: every truncation length, every single-bit flip (exhaustive for encodings <= 200 bytes, sampled above), +1/+32/+4096 extensions, empty input, all-0x00 / all-0xFF, hostile outer LEB128 length prefixes (2^7-1, 2^14, 2^32, 2^64-1, 19-byte maximal varint), and for JSON: non-hex characters, odd length, too short / too long hex, non-ASCII, escapes, wrong JSON type, missing / extra fields at every leaf; (2) the zero test: EXHAUSTIVE over the 256 byte values in first / middle / last position plus 1000 multi-byte patterns whose OR is 0x80, through every scalar byte importer; (3) every value any decoder returned is fed to every consuming method of its type (verify against honest and foreign keys, decrypt, from_shares, as_raw_value, Display, Debug, re-encode), capped per (type,codec) - plus ciphertexts whose INNER length prefix (under the keystream) is hostile; (4) every slice-taking API with lengths 0,1,2 and 255,256,257,300,1000 (an honest share set repeated) and the full 255-share set and SecretKeyEnum::from_*_bytes on short inputs; timestamp x timeout grid over {0,1,now+-1,now+-10^6,2^32,2^63,u64::MAX}. Distinct by (suite,type,codec,input bytes); a case is non-trivial when the input reached a decoder or consumer of the library (all do); counted separately: decoder-accepted inputs and consumer executions. Cancellation catalogue: well-formed inputs crafted so that a value the consumer derives from them is the identity / zero - proof of knowledge with U = -(H(msg)*y) (3 schemes x challenges {hash,1,r-1} x 2 responses, also through the byte decoder), ElGamal ciphertexts encrypting zero (direct, through shares, Enc(m)+Enc(-m)), ElGamal proofs whose recomputed commitments r1 / r1 and r2 are the identity, share sets (1,P),(2,2P) of every share type and secret-key shares (1,s),(2,2s), accumulations of x and -x.";

pub fn run(ctx: &mut Ctx) {
    ctx.panic_sig_by_location = true;
    for_both!(run_suite, ctx);
}

fn now_ms() -> u64 {
    SystemTime::now().duration_since(UNIX_EPOCH).unwrap().as_millis() as u64
}

struct V<'a> {
    ctx: &'a mut Ctx,
    suite: &'static str,
    base: u64,
    idx: u64,
    consume_cap: usize,
}

impl<'a> V<'a> {
    fn feed<C: Suite, T: Subject<C>>(&mut self, env: &Env<C>, codec: &str, kind: &str, input: &[u8], budget: &mut usize) {
        let n = self.suite;
        let tn = T::NAME;
        let entry = format!("{tn}::decode/{codec}");
        let cell = format!("{n}/{tn}/{codec}/{kind}");
        let r = self.ctx.guard(&entry, || json!({"input":hx(input),"input_len":input.len(),"mutation":kind}), || match codec {
            "bytes" => T::w_from(input).ok(),
            "bare" => T::from_bare(input).ok(),
            _ => T::from_json(input).ok(),
        });
        self.ctx.hit(&cell, &[input]);
        let Some(Some(v)) = r else { return };
        self.ctx.count("decoder_accepted", 1);
        // re-encode and format always
        self.ctx.guard(&format!("{tn}::re-encode"), || json!({"decoded_from":hx(input),"codec":codec}), || {
            std::hint::black_box((v.w_bytes(), v.bare().ok(), v.json().ok(), v.points()));
        });
        if *budget > 0 {
            *budget -= 1;
            self.ctx.count("consumer_runs", 1);
            self.ctx.guard(&format!("{tn}::consume"), || json!({"decoded_from":hx(input),"codec":codec,"mutation":kind}), || v.consume(env));
        }
    }
}

/// string-level hostile variants of a JSON document: every string leaf mutated, leaves
/// replaced by other JSON types, object keys removed / added
fn json_hostile(doc: &Value) -> Vec<(String, Vec<u8>)> {
    let mut out: Vec<(String, Vec<u8>)> = Vec::new();
    let mut extra: Vec<(String, Vec<u8>)> = Vec::new();
    let mut paths: Vec<Vec<String>> = Vec::new();
    fn walk(v: &Value, path: &mut Vec<String>, acc: &mut Vec<Vec<String>>) {
        acc.push(path.clone());
        match v {
            Value::Array(a) => {
                for (i, x) in a.iter().enumerate() {
                    // long byte arrays: first two and last element only
                    if a.len() > 8 && i >= 2 && i + 1 != a.len() {
                        continue;
                    }
                    path.push(i.to_string());
                    walk(x, path, acc);
                    path.pop();
                }
            }
            Value::Object(m) => {
                for (k, x) in m {
                    path.push(k.clone());
                    walk(x, path, acc);
                    path.pop();
                }
            }
            _ => {}
        }
    }
    walk(doc, &mut Vec::new(), &mut paths);
    fn get_mut<'a>(v: &'a mut Value, path: &[String]) -> Option<&'a mut Value> {
        let mut cur = v;
        for p in path {
            cur = match cur {
                Value::Array(a) => a.get_mut(p.parse::<usize>().ok()?)?,
                Value::Object(m) => m.get_mut(p)?,
                _ => return None,
            };
        }
        Some(cur)
    }
    for path in paths {
        let leaf = {
            let mut d = doc.clone();
            get_mut(&mut d, &path).cloned()
        };
        let Some(leaf) = leaf else { continue };
        let pname = path.join(".");
        let mut put = |name: &str, val: Value| {
            let mut d = doc.clone();
            if let Some(slot) = get_mut(&mut d, &path) {
                *slot = val;
                out.push((format!("{name}@{pname}"), serde_json::to_vec(&d).unwrap()));
            }
        };
        for (nm, v) in [("null", Value::Null), ("number", json!(123)), ("neg", json!(-1)), ("float", json!(1.5e300)), ("big", json!(u64::MAX)), ("array", json!([])), ("object", json!({})), ("bool", json!(true)), ("empty-string", json!("")), ("array-of-bytes", json!([0, 1, 2, 255]))] {
            put(nm, v);
        }
        if let Value::String(s) = &leaf {
            let mut vars: Vec<(&str, String)> = Vec::new();
            if !s.is_empty() {
                let mid = s.len() / 2;
                let rep = |i: usize, c: &str| {
                    let mut t = String::new();
                    for (j, ch) in s.chars().enumerate() {
                        if j == i {
                            t.push_str(c);
                        } else {
                            t.push(ch);
                        }
                    }
                    t
                };
                vars.push(("non-hex-g", rep(mid, "g")));
                vars.push(("non-hex-first", rep(0, "x")));
                vars.push(("non-hex-last", rep(s.chars().count() - 1, "Z")));
                vars.push(("space", rep(mid, " ")));
                vars.push(("non-ascii", rep(mid, "\u{e9}")));
                vars.push(("wide-char", rep(0, "\u{1F600}")));
                vars.push(("nul", rep(mid, "\u{0}")));
                vars.push(("uppercase", s.to_uppercase()));
                // same BYTE length as the original, but with a multi-byte character inside
                // (a decoder that slices the string in byte pairs must not split a character)
                if s.is_ascii() && s.len() >= 8 {
                    for off in [0usize, 1, 2, 3, mid, mid + 1, s.len() - 3, s.len() - 4] {
                        if off + 3 <= s.len() {
                            vars.push(("2-byte-char-same-length", format!("{}\u{e9}{}", &s[..off], &s[off + 2..])));
                            vars.push(("3-byte-char-same-length", format!("{}\u{20ac}{}", &s[..off], &s[off + 3..])));
                        }
                        if off + 4 <= s.len() {
                            vars.push(("4-byte-char-same-length", format!("{}\u{1F600}{}", &s[..off], &s[off + 4..])));
                        }
                    }
                }
                vars.push(("odd-length", s[..s.len() - 1].to_string()));
                vars.push(("one-char", s[..1].to_string()));
                vars.push(("too-short-2", s[..s.len().saturating_sub(2)].to_string()));
                vars.push(("half", s[..mid].to_string()));
                vars.push(("too-long-1", format!("{s}0")));
                vars.push(("too-long-2", format!("{s}00")));
                vars.push(("doubled", format!("{s}{s}")));
                vars.push(("0x-prefix", format!("0x{s}")));
                vars.push(("all-f", "f".repeat(s.len())));
                vars.push(("all-0", "0".repeat(s.len())));
            }
            for (nm, t) in vars {
                put(nm, Value::String(t));
            }
            // an escape sequence for a valid character: the decoder sees an owned string
            let mut d = doc.clone();
            if let Some(slot) = get_mut(&mut d, &path) {
                *slot = Value::String("@@ESC@@".into());
                let text = serde_json::to_string(&d).unwrap();
                if let Some(first) = s.chars().next() {
                    let esc = format!("\\u{:04x}{}", first as u32, &s[first.len_utf8()..]);
                    extra.push((format!("escape@{pname}"), text.replace("@@ESC@@", &esc).into_bytes()));
                }
            }
        }
        if let Value::Object(m) = &leaf {
            for k in m.keys() {
                let mut m2 = m.clone();
                m2.remove(k);
                put(&format!("missing-{k}"), Value::Object(m2));
            }
            let mut m2 = m.clone();
            m2.insert("unexpected".into(), json!("field"));
            put("extra-field", Value::Object(m2));
        }
        if let Value::Array(a) = &leaf {
            let mut a2 = a.clone();
            a2.pop();
            put("array-shorter", Value::Array(a2));
            let mut a2 = a.clone();
            a2.push(json!(0));
            put("array-longer", Value::Array(a2));
        }
    }
    out.extend(extra);
    out.push(("not-json".into(), b"\xff\xfe{".to_vec()));
    out.push(("deep-nesting".into(), "[".repeat(200).into_bytes()));
    out
}

pub fn hostile_varints() -> Vec<(&'static str, Vec<u8>)> {
    let mut max19 = vec![0xffu8; 18];
    max19.push(0x7f);
    vec![
        ("2^7-1", refimpl::leb128(127)),
        ("2^14", refimpl::leb128(1 << 14)),
        ("2^32", refimpl::leb128(1 << 32)),
        ("2^63", refimpl::leb128(1 << 63)),
        ("2^64-1", refimpl::leb128(u64::MAX as u128)),
        ("2^64", refimpl::leb128(1u128 << 64)),
        ("19-byte-max", max19),
        ("20-continuation-bytes", vec![0x80u8; 20]),
        ("noncanonical-zero", vec![0x80, 0x00]),
    ]
}

impl<'a, C: Suite> Visitor<C> for V<'a> {
    fn visit<T: Subject<C>>(&mut self, env: &Env<C>, _rng: &mut ChaCha20Rng) {
        self.idx += 1;
        let g = self.base + self.idx;
        if !self.ctx.mine(g) {
            return;
        }
        let mut rng = self.ctx.rng(g);
        let n = self.suite;
        let tn = T::NAME;
        let thorough = self.ctx.tier == Tier::Thorough;
        let mut sr = self.ctx.rng_l(g, "samples");
        let all = T::samples(env, &mut sr, false);
        // honest samples first, one per variant; then the edge samples (identity, empty, extreme)
        let mut picks: Vec<(String, T)> = Vec::new();
        let mut seen = std::collections::BTreeSet::new();
        for (l, x) in &all {
            let edge = l.contains("identity") || l.contains("empty") || l.contains("u64::MAX") || l.contains("65536");
            if seen.insert((x.variant(), edge)) {
                picks.push((l.clone(), x.clone()));
            }
        }
        picks.truncate(if thorough { 10 } else { 6 });
        for kind in ["truncated", "bitflip", "extended", "fill"] {
            for codec in ["bytes", "bare", "json"] {
                self.ctx.require(&format!("{n}/{tn}/{codec}/{kind}"));
            }
        }
        self.ctx.require(&format!("{n}/{tn}/json/hostile-json"));
        for (pi, (_label, x)) in picks.iter().enumerate() {
            let encs: Vec<(&str, Vec<u8>)> = vec![("bytes", x.w_bytes()), ("bare", x.bare().unwrap_or_default()), ("json", x.json().unwrap_or_default())];
            for (codec, enc) in &encs {
                let mut budget = self.consume_cap;
                // the untouched encoding: decoder output goes through every consumer
                self.feed::<C, T>(env, codec, "honest", enc, &mut budget);
                // truncations
                let cuts: Vec<usize> = if enc.len() <= 600 {
                    (0..enc.len()).collect()
                } else {
                    let mut c: Vec<usize> = (0..300).chain(enc.len() - 100..enc.len()).collect();
                    for _ in 0..50 {
                        c.push(gen::below(&mut rng, enc.len()));
                    }
                    c
                };
                for cut in cuts {
                    self.feed::<C, T>(env, codec, "truncated", &enc[..cut], &mut budget);
                }
                // bit flips
                let nbits = enc.len() * 8;
                let flips: Vec<usize> = if enc.len() <= 200 && (pi < 2 || thorough) {
                    (0..nbits).collect()
                } else {
                    (0..if thorough { 512 } else { 96 }).map(|_| gen::below(&mut rng, nbits.max(1))).collect()
                };
                for b in flips {
                    if nbits == 0 {
                        break;
                    }
                    self.feed::<C, T>(env, codec, "bitflip", &gen::flip_bit(enc, b), &mut budget);
                }
                // extensions
                for ext in [1usize, 32, 4096] {
                    for fill in [0u8, 0xff] {
                        let mut e = enc.clone();
                        e.extend(std::iter::repeat(fill).take(ext));
                        self.feed::<C, T>(env, codec, "extended", &e, &mut budget);
                    }
                }
                // fills
                self.feed::<C, T>(env, codec, "fill", &[], &mut budget);
                self.feed::<C, T>(env, codec, "fill", &vec![0u8; enc.len()], &mut budget);
                self.feed::<C, T>(env, codec, "fill", &vec![0xffu8; enc.len()], &mut budget);
                self.feed::<C, T>(env, codec, "fill", &vec![0x80u8; enc.len()], &mut budget);
                for _ in 0..if thorough { 200 } else { 20 } {
                    let l = if rng.next_u32() % 4 == 0 { gen::below(&mut rng, enc.len() + 64) } else { enc.len() };
                    self.feed::<C, T>(env, codec, "fill", &gen::random_bytes(l, &mut rng), &mut budget);
                }
                // hostile outer varints at every offset where a LEB128 prefix can live
                if *codec != "json" && (tn == "SignCryptCiphertext" || tn == "TimeCryptCiphertext") {
                    self.ctx.require(&format!("{n}/{tn}/{codec}/hostile-length-prefix"));
                    let ulen = enc_pt(&pk_gen::<C>()).len();
                    let off = if tn == "SignCryptCiphertext" { ulen } else { ulen + 32 };
                    if off < enc.len() {
                        let (_, used) = refimpl::leb128_read(&enc[off..]).unwrap_or((0, 1));
                        for (vn, vb) in hostile_varints() {
                            let mut e = enc[..off].to_vec();
                            e.extend_from_slice(&vb);
                            e.extend_from_slice(&enc[off + used..]);
                            self.feed::<C, T>(env, codec, "hostile-length-prefix", &e, &mut budget);
                            // and with nothing after the prefix
                            let mut e2 = enc[..off].to_vec();
                            e2.extend_from_slice(&vb);
                            self.feed::<C, T>(env, codec, "hostile-length-prefix", &e2, &mut budget);
                            let _ = vn;
                        }
                    }
                }
                // hostile JSON
                if *codec == "json" {
                    if let Ok(doc) = serde_json::from_slice::<Value>(enc) {
                        let mut jb = self.consume_cap;
                        for (_nm, bytes) in json_hostile(&doc) {
                            self.feed::<C, T>(env, "json", "hostile-json", &bytes, &mut jb);
                        }
                    }
                }
            }
        }
    }
}

fn run_suite<C: Suite>(ctx: &mut Ctx) {
    let base: u64 = if C::NAME == "G1Impl" { 0 } else { 1 << 32 };
    let n = C::NAME;
    let mut erng = ctx.rng_l(base, "env");
    let env = Env::<C>::new(&mut erng);
    let cap = ctx.tier.pick(24, 160);
    {
        let mut v = V { ctx, suite: n, base, idx: 0, consume_cap: cap };
        codec::visit_all::<C, _>(&mut v, &env, &mut erng);
    }
    for c in ["zero-test/exhaustive-256", "zero-test/or=0x80", "slices", "timestamps", "inner-frame/signcrypt", "inner-frame/timelock", "empty-payload"] {
        ctx.require(&format!("{n}/{c}"));
    }
    if ctx.mine(base + 500) {
        zero_test::<C>(ctx, base + 500);
    }
    if ctx.mine(base + 501) {
        slices::<C>(ctx, &env);
    }
    if ctx.mine(base + 502) {
        timestamps::<C>(ctx, &env);
    }
    if ctx.mine(base + 503) {
        inner_frames::<C>(ctx, &env, base + 503);
    }
    ctx.require(&format!("{n}/cancellations"));
    if ctx.mine(base + 504) {
        cancellations::<C>(ctx, &env, base + 504);
    }
}

/// Algebraically crafted inputs: well-formed values chosen so that a value the consumer DERIVES
/// from them (a blinded commitment, a decrypted point, an interpolated point or scalar, a proof
/// commitment) is the identity / zero. Every one decodes and passes the explicit identity / zero
/// checks on the inputs themselves; the consumer must still return normally.
fn cancellations<C: Suite>(ctx: &mut Ctx, env: &Env<C>, g: u64) {
    let n = C::NAME;
    let cell = format!("{n}/cancellations");
    let mut rng = ctx.rng(g);
    let k = rs_from_sc::<C>(&env.sk.0);
    let two = RS::ONE + RS::ONE;
    // 1. proof of knowledge with U = -(H(msg) * y): the blinded commitment U + H(msg)*y is O
    for s in SCHEMES {
        let dst = <C::R as RC>::dst(s);
        for (yn, y) in [("hash", rs_from_sc::<C>(&env.y.0)), ("1", RS::ONE), ("r-1", -RS::ONE)] {
            let a = RSig::<C>::hash(&env.msg, dst);
            let u = a.mul(&y).neg();
            for (vn, v) in [("random", RSig::<C>::gen().mul(&gen::random_scalar(&mut rng))), ("sig*y", rsig_of::<C>(&env.sig(s)).mul(&y))] {
                let (lu, lv) = (ls::<C>(u), ls::<C>(v));
                let pok = match s {
                    Scheme::Basic => ProofOfKnowledge::<C>::Basic { u: lu, v: lv },
                    Scheme::Aug => ProofOfKnowledge::<C>::MessageAugmentation { u: lu, v: lv },
                    Scheme::Pop => ProofOfKnowledge::<C>::ProofOfPossession { u: lu, v: lv },
                };
                let ly = ProofCommitmentChallenge::<C>(sc_from_rs::<C>(&y));
                let d = || json!({"what":"proof of knowledge whose commitment cancels the challenge term: U = -(H(msg)*y)","scheme":s.name(),"y":yn,"v":vn,"proof":hx(&Vec::from(&pok))});
                ctx.guard("ProofOfKnowledge::verify", d, || std::hint::black_box(pok.verify(env.pk, &env.msg, ly).is_ok()));
                // the same proof through its byte decoder (it is well-formed)
                if let Ok(p2) = ProofOfKnowledge::<C>::try_from(Vec::from(&pok).as_slice()) {
                    ctx.guard("ProofOfKnowledge::verify", d, || std::hint::black_box(p2.verify(env.pk, &env.msg, ly).is_ok()));
                }
                ctx.hit(&cell, &[b"pok", &[s.wire()], yn.as_bytes(), vn.as_bytes()]);
            }
        }
    }
    // 2. ElGamal ciphertexts that encrypt zero (c2 = sk*c1): the decrypted point is O
    {
        let r = gen::random_scalar(&mut rng);
        let c1 = RPk::<C>::gen().mul(&r);
        let c2 = c1.mul(&k);
        let ct = ElGamalCiphertext::<C> { c1: lp::<C>(c1), c2: lp::<C>(c2) };
        let d = || json!({"what":"ElGamal ciphertext with c2 = sk*c1 (encrypts zero)","ct":hx(&Vec::from(&ct))});
        ctx.guard("ElGamalCiphertext::decrypt", d, || std::hint::black_box(enc_pt(&ct.decrypt(&env.sk))));
        let es: Vec<ElGamalDecryptionShare<C>> = env.shares.iter().filter_map(|s| <C as BlsSignatureCore>::public_key_share_with_generator(&s.0, ct.c1).ok().map(ElGamalDecryptionShare)).collect();
        ctx.guard("ElGamalDecryptionKey::from_shares+decrypt", d, || std::hint::black_box(ElGamalDecryptionKey::<C>::from_shares(&es).map(|dk| enc_pt(&dk.decrypt(&ct))).ok()));
        // the sum of an honest ciphertext and the ciphertext of the negated plaintext
        let m = gen::random_scalar(&mut rng);
        if let (Ok(a), Ok(b)) = (env.pk.encrypt_key_el_gamal(&sk_from_rs::<C>(&m)), env.pk.encrypt_key_el_gamal(&sk_from_rs::<C>(&-m))) {
            let sum = a + b;
            ctx.guard("ElGamalCiphertext::decrypt", || json!({"what":"Enc(m)+Enc(-m)"}), || std::hint::black_box(enc_pt(&sum.decrypt(&env.sk))));
        }
        ctx.hit(&cell, &[b"elgamal-zero"]);
        // 3. ElGamal proofs whose recomputed commitments r1 / r2 are O
        let ch = gen::random_scalar(&mut rng);
        let chi: RS = Option::<RS>::from(ch.invert()).unwrap();
        let bp = r * ch; // G*bp - c1*ch = O
        let mp = gen::random_scalar(&mut rng);
        let h = RPk::<C>::dec(&enc_pt(&<C as BlsElGamal>::message_generator()));
        if let Some(h) = h {
            let pkr = rpk_of::<C>(&env.pk);
            // r2 = -c2*ch + H*mp + pk*bp = O  <=>  c2 = (H*mp + pk*bp)/ch
            let c2b = h.mul(&mp).add(pkr.mul(&bp)).mul(&chi);
            for (vn, cc2) in [("r1=O", c2), ("r1=O,r2=O", c2b)] {
                let proof = ElGamalProof::<C> {
                    ciphertext: ElGamalCiphertext { c1: lp::<C>(c1), c2: lp::<C>(cc2) },
                    message_proof: sc_from_rs::<C>(&mp),
                    blinder_proof: sc_from_rs::<C>(&bp),
                    challenge: sc_from_rs::<C>(&ch),
                };
                let d = || json!({"what":"ElGamal proof whose recomputed commitment(s) are the identity","variant":vn,"proof":hx(&Vec::from(&proof))});
                ctx.guard("ElGamalProof::verify", d, || std::hint::black_box(proof.verify(env.pk).is_ok()));
                ctx.guard("ElGamalProof::verify_and_decrypt", d, || std::hint::black_box(proof.verify_and_decrypt(&env.sk).is_ok()));
                ctx.hit(&cell, &[b"elgamal-proof", vn.as_bytes()]);
            }
        }
    }
    // 4. share sets that interpolate to the identity / zero: (1, P), (2, 2P) gives 2P - 2P = O
    {
        let p = RPk::<C>::gen().mul(&gen::random_scalar(&mut rng));
        let q = RSig::<C>::gen().mul(&gen::random_scalar(&mut rng));
        let pk_shares = vec![PublicKeyShare::<C>(pk_share_raw::<C>(1, &p.enc())), PublicKeyShare::<C>(pk_share_raw::<C>(2, &p.mul(&two).enc()))];
        ctx.guard("PublicKey::from_shares", || json!({"what":"public-key shares (1,P),(2,2P): interpolate to O"}), || std::hint::black_box(PublicKey::<C>::from_shares(&pk_shares).map(|x| pk_bytes(&x)).ok()));
        let ds = vec![SignDecryptionShare::<C>(pk_share_raw::<C>(1, &p.enc())), SignDecryptionShare::<C>(pk_share_raw::<C>(2, &p.mul(&two).enc()))];
        let ct = env.pk.sign_crypt(SignatureSchemes::ProofOfPossession, &env.msg);
        ctx.guard("SignCryptDecryptionKey::from_shares", || json!({"what":"decryption shares (1,P),(2,2P)"}), || std::hint::black_box(SignCryptDecryptionKey::<C>::from_shares(&ds).ok().and_then(|dk| ct_some(dk.decrypt(&ct)))));
        ctx.guard("SignCryptCiphertext::decrypt_with_shares", || json!({"what":"decryption shares (1,P),(2,2P)"}), || std::hint::black_box(ct_some(ct.decrypt_with_shares(&ds))));
        let es = vec![ElGamalDecryptionShare::<C>(pk_share_raw::<C>(1, &p.enc())), ElGamalDecryptionShare::<C>(pk_share_raw::<C>(2, &p.mul(&two).enc()))];
        if let Ok(eg) = env.pk.encrypt_key_el_gamal(&env.sk2) {
            ctx.guard("ElGamalDecryptionKey::from_shares", || json!({"what":"ElGamal decryption shares (1,P),(2,2P)"}), || std::hint::black_box(ElGamalDecryptionKey::<C>::from_shares(&es).map(|dk| enc_pt(&dk.decrypt(&eg))).ok()));
        }
        for s in SCHEMES {
            let ss = vec![wrap_sig_share::<C>(s, sig_share_raw::<C>(1, &q.enc())), wrap_sig_share::<C>(s, sig_share_raw::<C>(2, &q.mul(&two).enc()))];
            ctx.guard("Signature::from_shares", || json!({"what":"signature shares (1,Q),(2,2Q): interpolate to O","scheme":s.name()}), || {
                std::hint::black_box(Signature::<C>::from_shares(&ss).ok().map(|sg| sg.verify(&env.pk, &env.msg).is_ok()))
            });
        }
        // secret-key shares (1, s), (2, 2s) interpolate to the zero key
        if let Ok(mut sh) = env.sk.split(2, 3) {
            let s1 = rs_from_sc::<C>(&sk_from_rs::<C>(&gen::random_scalar(&mut rng)).0);
            let mut le1 = s1.to_be_bytes();
            le1.reverse();
            let mut le2 = (s1 * two).to_be_bytes();
            le2.reverse();
            let ok = sh[0].0.value_mut(&le1).is_ok() && sh[1].0.value_mut(&le2).is_ok();
            if ok {
                let pair = vec![sh[0].clone(), sh[1].clone()];
                ctx.guard("SecretKey::combine", || json!({"what":"secret-key shares (1,s),(2,2s): interpolate to zero"}), || std::hint::black_box(SecretKey::<C>::combine(&pair).is_ok()));
            }
        }
        ctx.hit(&cell, &[b"shares-to-identity"]);
    }
    // 5. accumulations that cancel: keys pk, -pk and signatures sig, -sig
    {
        let negpk = PublicKey::<C>(-env.pk.0);
        let mpk = MultiPublicKey::<C>::from_public_keys([env.pk, negpk]);
        for s in [Scheme::Basic, Scheme::Pop] {
            let sig = env.sig(s);
            let neg = wrap_sig::<C>(s, -*sig.as_raw_value());
            let d = || json!({"what":"accumulation of x and -x","scheme":s.name()});
            ctx.guard("MultiSignature::from_signatures+verify", d, || std::hint::black_box(MultiSignature::<C>::from_signatures([sig, neg]).ok().map(|m| m.verify(mpk, &env.msg).is_ok())));
            ctx.guard("AggregateSignature::from_signatures+verify", d, || {
                std::hint::black_box(AggregateSignature::<C>::from_signatures([sig, neg]).ok().map(|a| a.verify(&[(env.pk, env.msg.clone()), (negpk, env.msg.clone())]).is_ok()))
            });
        }
        ctx.hit(&cell, &[b"accumulate-to-identity"]);
    }
    ctx.sample(&cell, || json!({"what":"crafted inputs whose derived values cancel: PoK U=-(H(m)y) x 3 schemes x 3 challenges x 2 responses; ElGamal zero plaintext (direct, from shares, Enc(m)+Enc(-m)); ElGamal proofs with r1=O and r1=r2=O; share sets (1,P),(2,2P) for every share type; x and -x accumulated"}));
}

/// every scalar byte importer
fn import_all<C: Suite>(ctx: &mut Ctx, b: &[u8; 32]) {
    let d = || json!({"bytes":hex::encode(b)});
    let mut le = *b;
    le.reverse();
    ctx.guard("SecretKey::from_be_bytes", d, || std::hint::black_box(bool::from(SecretKey::<C>::from_be_bytes(b).is_some())));
    ctx.guard("SecretKey::from_le_bytes", d, || std::hint::black_box(bool::from(SecretKey::<C>::from_le_bytes(b).is_some())));
    ctx.guard("SecretKey::try_from", d, || std::hint::black_box(SecretKey::<C>::try_from(&b[..]).is_ok()));
    ctx.guard("ProofCommitmentSecret::from_be_bytes", d, || std::hint::black_box(bool::from(ProofCommitmentSecret::<C>::from_be_bytes(b).is_some())));
    ctx.guard("ProofCommitmentSecret::from_le_bytes", d, || std::hint::black_box(bool::from(ProofCommitmentSecret::<C>::from_le_bytes(b).is_some())));
    ctx.guard("ProofCommitmentSecret::try_from", d, || std::hint::black_box(ProofCommitmentSecret::<C>::try_from(&b[..]).is_ok()));
    ctx.guard("ProofCommitmentChallenge::from_be_bytes", d, || std::hint::black_box(bool::from(ProofCommitmentChallenge::<C>::from_be_bytes(b).is_some())));
    ctx.guard("ProofCommitmentChallenge::from_le_bytes", d, || std::hint::black_box(bool::from(ProofCommitmentChallenge::<C>::from_le_bytes(b).is_some())));
    ctx.guard("ProofCommitmentChallenge::try_from", d, || std::hint::black_box(ProofCommitmentChallenge::<C>::try_from(&b[..]).is_ok()));
    let mut t = vec![u8::from(C::CURVE)];
    t.extend_from_slice(b);
    ctx.guard("SecretKeyEnum::try_from", d, || std::hint::black_box(SecretKeyEnum::try_from(&t[..]).is_ok()));
    ctx.guard("SecretKeyEnum::from_be_bytes", d, || std::hint::black_box(bool::from(SecretKeyEnum::from_be_bytes(&t).is_some())));
    ctx.guard("SecretKeyEnum::from_le_bytes", d, || std::hint::black_box(bool::from(SecretKeyEnum::from_le_bytes(&t).is_some())));
}

fn zero_test<C: Suite>(ctx: &mut Ctx, g: u64) {
    let n = C::NAME;
    let mut rng = ctx.rng(g);
    for b in 0..=255u8 {
        for pos in [0usize, 15, 31] {
            let mut a = [0u8; 32];
            a[pos] = b;
            import_all::<C>(ctx, &a);
            ctx.hit(&format!("{n}/zero-test/exhaustive-256"), &[&a]);
        }
    }
    ctx.exhaustive.push("zero test: the 256 byte values in first/middle/last position through 12 scalar importers".into());
    for i in 0..1000 {
        // multi-byte patterns whose OR is exactly 0x80
        let mut a = [0u8; 32];
        let k = 1 + gen::below(&mut rng, 8);
        for _ in 0..k {
            a[gen::below(&mut rng, 32)] = 0x80;
        }
        if i % 5 == 0 {
            // OR has the top bit plus others
            a[gen::below(&mut rng, 32)] |= (rng.next_u32() as u8) | 0x80;
        }
        import_all::<C>(ctx, &a);
        ctx.hit(&format!("{n}/zero-test/or=0x80"), &[&a]);
    }
    ctx.sample(&format!("{n}/zero-test/exhaustive-256"), || json!({"example":"00..0080 through SecretKey::from_be_bytes and 11 other importers"}));
}

fn slices<C: Suite>(ctx: &mut Ctx, env: &Env<C>) {
    let n = C::NAME;
    let cell = format!("{n}/slices");
    let msg = &env.msg;
    // SecretKeyEnum on short inputs
    for input in [vec![], vec![0u8], vec![1u8], vec![2u8], vec![3u8], vec![1u8; 2], vec![1u8; 32], vec![2u8; 34], vec![0u8; 33], vec![255u8; 33]] {
        let d = || json!({"input":hex::encode(&input)});
        ctx.guard("SecretKeyEnum::try_from", d, || std::hint::black_box(SecretKeyEnum::try_from(input.as_slice()).is_ok()));
        ctx.guard("SecretKeyEnum::from_be_bytes", d, || std::hint::black_box(bool::from(SecretKeyEnum::from_be_bytes(&input).is_some())));
        ctx.guard("SecretKeyEnum::from_le_bytes", d, || std::hint::black_box(bool::from(SecretKeyEnum::from_le_bytes(&input).is_some())));
        ctx.guard("SecretKeyEnum::try_from(Vec)", d, || std::hint::black_box(SecretKeyEnum::try_from(input.clone()).is_ok()));
        ctx.hit(&cell, &[b"SecretKeyEnum", &input]);
    }
    let ss: Vec<SignatureShare<C>> = env.shares.iter().map(|s| s.sign(SignatureSchemes::Basic, msg).unwrap()).collect();
    let ct = env.pk.sign_crypt(SignatureSchemes::ProofOfPossession, msg);
    let ds: Vec<SignDecryptionShare<C>> = env.shares.iter().map(|s| ct.create_decryption_share(s).unwrap()).collect();
    let eg = env.pk.encrypt_key_el_gamal(&env.sk2).unwrap();
    let es: Vec<ElGamalDecryptionShare<C>> = env.shares.iter().map(|s| ElGamalDecryptionShare(<C as BlsSignatureCore>::public_key_share_with_generator(&s.0, eg.c1).unwrap())).collect();
    let sigs: Vec<Signature<C>> = SCHEMES.iter().map(|s| env.sig(*s)).collect();
    for len in 0..=2usize {
        let d = || json!({"slice_len":len});
        ctx.guard("SecretKey::combine", d, || std::hint::black_box(SecretKey::<C>::combine(&env.shares[..len]).is_ok()));
        ctx.guard("PublicKey::from_shares", d, || std::hint::black_box(PublicKey::<C>::from_shares(&env.pk_shares[..len]).is_ok()));
        ctx.guard("Signature::from_shares", d, || std::hint::black_box(Signature::<C>::from_shares(&ss[..len]).is_ok()));
        ctx.guard("SignCryptDecryptionKey::from_shares", d, || std::hint::black_box(SignCryptDecryptionKey::<C>::from_shares(&ds[..len]).is_ok()));
        ctx.guard("ElGamalDecryptionKey::from_shares", d, || std::hint::black_box(ElGamalDecryptionKey::<C>::from_shares(&es[..len]).is_ok()));
        ctx.guard("SignCryptCiphertext::decrypt_with_shares", d, || std::hint::black_box(bool::from(ct.decrypt_with_shares(&ds[..len]).is_some())));
        ctx.guard("AggregateSignature::from_signatures", d, || std::hint::black_box(AggregateSignature::<C>::from_signatures(&sigs[..len]).is_ok()));
        ctx.guard("MultiSignature::from_signatures", d, || std::hint::black_box(MultiSignature::<C>::from_signatures(&sigs[..len]).is_ok()));
        let pks = [env.pk, env.pk2];
        ctx.guard("MultiPublicKey::from_public_keys", d, || std::hint::black_box(MultiPublicKey::<C>::from_public_keys(&pks[..len])));
        let data: Vec<(PublicKey<C>, Vec<u8>)> = pks[..len].iter().map(|p| (*p, msg.clone())).collect();
        for s in SCHEMES {
            let agg = wrap_agg::<C>(s, *env.sig(s).as_raw_value());
            ctx.guard("AggregateSignature::verify", d, || std::hint::black_box(agg.verify(&data).is_ok()));
            let agg0 = wrap_agg::<C>(s, sig_id::<C>());
            ctx.guard("AggregateSignature::verify", d, || std::hint::black_box(agg0.verify(&data).is_ok()));
        }
        ctx.hit(&cell, &[b"len", &[len as u8]]);
    }
    // long slices (more elements than identifiers exist): honest sets repeated
    for len in [255usize, 256, 257, 300, 1000] {
        let d = || json!({"slice_len":len,"what":"an honest 2-of-3 share set repeated"});
        let rep_sk: Vec<SecretKeyShare<C>> = (0..len).map(|i| env.shares[i % 3].clone()).collect();
        let rep_pk: Vec<PublicKeyShare<C>> = (0..len).map(|i| env.pk_shares[i % 3]).collect();
        let rep_ss: Vec<SignatureShare<C>> = (0..len).map(|i| ss[i % 3]).collect();
        let rep_ds: Vec<SignDecryptionShare<C>> = (0..len).map(|i| ds[i % 3].clone()).collect();
        let rep_es: Vec<ElGamalDecryptionShare<C>> = (0..len).map(|i| es[i % 3].clone()).collect();
        ctx.guard("SecretKey::combine", d, || std::hint::black_box(SecretKey::<C>::combine(&rep_sk).is_ok()));
        ctx.guard("PublicKey::from_shares", d, || std::hint::black_box(PublicKey::<C>::from_shares(&rep_pk).is_ok()));
        ctx.guard("Signature::from_shares", d, || std::hint::black_box(Signature::<C>::from_shares(&rep_ss).is_ok()));
        ctx.guard("SignCryptDecryptionKey::from_shares", d, || std::hint::black_box(SignCryptDecryptionKey::<C>::from_shares(&rep_ds).is_ok()));
        ctx.guard("ElGamalDecryptionKey::from_shares", d, || std::hint::black_box(ElGamalDecryptionKey::<C>::from_shares(&rep_es).is_ok()));
        ctx.guard("SignCryptCiphertext::decrypt_with_shares", d, || std::hint::black_box(bool::from(ct.decrypt_with_shares(&rep_ds).is_some())));
        let many_sigs: Vec<Signature<C>> = (0..len).map(|_| sigs[2]).collect();
        ctx.guard("AggregateSignature::from_signatures", d, || std::hint::black_box(AggregateSignature::<C>::from_signatures(&many_sigs).is_ok()));
        ctx.guard("MultiSignature::from_signatures", d, || std::hint::black_box(MultiSignature::<C>::from_signatures(&many_sigs).is_ok()));
        let many_pks: Vec<PublicKey<C>> = (0..len).map(|i| if i % 2 == 0 { env.pk } else { env.pk2 }).collect();
        ctx.guard("MultiPublicKey::from_public_keys", d, || std::hint::black_box(MultiPublicKey::<C>::from_public_keys(&many_pks)));
        if len <= 300 {
            let data: Vec<(PublicKey<C>, Vec<u8>)> = many_pks.iter().enumerate().map(|(i, p)| (*p, vec![i as u8, (i >> 8) as u8])).collect();
            let agg = wrap_agg::<C>(Scheme::Pop, *sigs[2].as_raw_value());
            ctx.guard("AggregateSignature::verify", d, || std::hint::black_box(agg.verify(&data).is_ok()));
        }
        ctx.hit(&cell, &[b"long", &(len as u32).to_le_bytes()]);
    }
    // all 255 distinct shares, and all but one
    if let Ok(all) = env.sk.split(2, 255) {
        let d = || json!({"what":"all 255 shares of a 2-of-255 split"});
        let pk_all: Vec<PublicKeyShare<C>> = all.iter().filter_map(|s| s.public_key().ok()).collect();
        let ss_all: Vec<SignatureShare<C>> = all.iter().filter_map(|s| s.sign(SignatureSchemes::Basic, msg).ok()).collect();
        let ds_all: Vec<SignDecryptionShare<C>> = all.iter().filter_map(|s| ct.create_decryption_share(s).ok()).collect();
        ctx.guard("SecretKey::combine", d, || std::hint::black_box(SecretKey::<C>::combine(&all).is_ok()));
        ctx.guard("PublicKey::from_shares", d, || std::hint::black_box(PublicKey::<C>::from_shares(&pk_all).is_ok()));
        ctx.guard("Signature::from_shares", d, || std::hint::black_box(Signature::<C>::from_shares(&ss_all).is_ok()));
        ctx.guard("SignCryptCiphertext::decrypt_with_shares", d, || std::hint::black_box(bool::from(ct.decrypt_with_shares(&ds_all).is_some())));
        ctx.hit(&cell, &[b"all-255"]);
    }
    // duplicated and mixed share sets
    ctx.guard("Signature::from_shares", || json!({"case":"duplicates"}), || std::hint::black_box(Signature::<C>::from_shares(&[ss[0], ss[0], ss[0]]).is_ok()));
    let sp = env.shares[1].sign(SignatureSchemes::ProofOfPossession, msg).unwrap();
    ctx.guard("Signature::from_shares", || json!({"case":"mixed"}), || std::hint::black_box(Signature::<C>::from_shares(&[ss[0], sp]).is_ok()));
    ctx.hit(&cell, &[b"dup-mixed"]);
    // empty payloads fed to decrypt (decoder-acceptable but odd values)
    for s in SCHEMES {
        let mut c = env.pk.sign_crypt(lscheme(s), msg);
        for vlen in [0usize, 1, 2, 31] {
            c.v = vec![0x41; vlen];
            let d = || json!({"what":"signcryption ciphertext with a short payload","v_len":vlen,"scheme":s.name()});
            ctx.guard("SignCryptCiphertext::is_valid", d, || std::hint::black_box(bool::from(c.is_valid())));
            ctx.guard("SignCryptCiphertext::decrypt", d, || std::hint::black_box(bool::from(c.decrypt(&env.sk).is_some())));
            ctx.guard("SignCryptDecryptionKey::decrypt", d, || std::hint::black_box(bool::from(SignCryptDecryptionKey::<C>(c.u * env.sk.0).decrypt(&c).is_some())));
            ctx.guard("SignCryptCiphertext::decrypt_with_shares", d, || std::hint::black_box(bool::from(c.decrypt_with_shares(&ds).is_some())));
            ctx.hit(&format!("{n}/empty-payload"), &[b"sc", &[vlen as u8, s.wire()]]);
        }
        // 1-byte payloads: the keystream byte is zero with probability 1/256 - try many keys
        for i in 0..600u32 {
            let mut c1 = c.clone();
            c1.u = codec::some_pk_point::<C>(i as u64 + 2);
            c1.v = vec![0x41];
            ctx.guard("SignCryptDecryptionKey::decrypt", || json!({"what":"1-byte payload","i":i}), || std::hint::black_box(bool::from(SignCryptDecryptionKey::<C>(c1.u).decrypt(&c1).is_some())));
        }
        let id = b"id";
        if let Ok(mut t) = env.pk.encrypt_time_lock(lscheme(s), msg, id) {
            let sig = env.sk.sign(lscheme(s), id).unwrap();
            for wlen in [0usize, 1, 2, 31] {
                t.w = vec![0x41; wlen];
                let d = || json!({"what":"time-lock ciphertext with a short payload","w_len":wlen,"scheme":s.name()});
                ctx.guard("TimeCryptCiphertext::decrypt", d, || std::hint::black_box(bool::from(t.decrypt(&sig).is_some())));
                ctx.hit(&format!("{n}/empty-payload"), &[b"tl", &[wlen as u8, s.wire()]]);
            }
            for i in 0..600u32 {
                let mut t1 = t.clone();
                t1.v[0] = i as u8;
                t1.v[1] = (i >> 8) as u8;
                t1.w = vec![0x41];
                ctx.guard("TimeCryptCiphertext::decrypt", || json!({"what":"1-byte payload","i":i}), || std::hint::black_box(bool::from(t1.decrypt(&sig).is_some())));
            }
        }
    }
    ctx.sample(&cell, || json!({"apis":"combine/from_shares/from_signatures/from_public_keys/verify(&[])/decrypt_with_shares with 0,1,2 elements; SecretKeyEnum importers on 10 short inputs"}));
}

fn timestamps<C: Suite>(ctx: &mut Ctx, env: &Env<C>) {
    let n = C::NAME;
    let now = now_ms();
    let grid: Vec<u64> = vec![0, 1, now - 1, now, now + 1, now.saturating_sub(1_000_000), now + 1_000_000, 1 << 32, 1 << 63, u64::MAX, u64::MAX - 1, (1 << 63) - 1, now * 2];
    for s in SCHEMES {
        let sig = env.sig(s);
        let Ok(tp) = ProofOfKnowledgeTimestamp::<C>::generate(&env.msg, sig) else { continue };
        for &t in &grid {
            let altered = ProofOfKnowledgeTimestamp::<C> { proof: tp.proof, timestamp: t };
            for tt in grid.iter().map(|x| Some(*x)).chain([None]) {
                ctx.guard("ProofOfKnowledgeTimestamp::verify", || json!({"timestamp":t,"timeout":tt,"scheme":s.name()}), || std::hint::black_box(altered.verify(env.pk, &env.msg, tt).is_ok()));
                ctx.hit(&format!("{n}/timestamps"), &[&t.to_le_bytes(), &tt.unwrap_or(3).to_le_bytes(), &[tt.is_some() as u8, s.wire()]]);
            }
            // compute_y on any timestamp
            let (u, _) = match tp.proof {
                ProofOfKnowledge::Basic { u, v } | ProofOfKnowledge::MessageAugmentation { u, v } | ProofOfKnowledge::ProofOfPossession { u, v } => (u, v),
            };
            ctx.guard("BlsSignatureProof::compute_y", || json!({"timestamp":t}), || std::hint::black_box(<C as BlsSignatureProof>::compute_y(u, t)));
        }
    }
    ctx.sample(&format!("{n}/timestamps"), || json!({"grid":grid}));
}

fn inner_frames<C: Suite>(ctx: &mut Ctx, env: &Env<C>, g: u64) {
    let n = C::NAME;
    let mut rng = ctx.rng(g);
    let k = rs_from_sc::<C>(&env.sk.0);
    let pk = rpk_of::<C>(&env.pk);
    let mut frames: Vec<(String, Vec<u8>)> = Vec::new();
    for (vn, vb) in hostile_varints() {
        let mut f = vb.clone();
        frames.push((format!("{vn}/alone"), f.clone()));
        f.extend_from_slice(&[0u8; 40]);
        frames.push((format!("{vn}/+40"), f));
    }
    for len in [0usize, 1, 2, 18, 19, 20, 31, 32, 33] {
        frames.push((format!("all-ff/{len}"), vec![0xff; len]));
        frames.push((format!("all-80/{len}"), vec![0x80; len]));
        frames.push((format!("all-00/{len}"), vec![0x00; len]));
    }
    for len in [1usize, 5, 32, 64] {
        // declared length one more than available / exactly available
        let mut f = refimpl::leb128(len as u128 + 1);
        f.extend(vec![0x42u8; len]);
        frames.push((format!("declared>available/{len}"), f));
        let mut f = refimpl::leb128(len as u128);
        f.extend(vec![0x42u8; len]);
        frames.push((format!("declared==available/{len}"), f));
    }
    for s in SCHEMES {
        let dst = <C::R as RC>::dst(s);
        for (fname, frame) in &frames {
            let r = gen::random_scalar(&mut rng);
            let sc = refimpl::signcrypt_seal_frame::<C::R>(pk, frame, dst, &r);
            let c = SignCryptCiphertext::<C> { u: lp::<C>(sc.u), v: sc.v.clone(), w: ls::<C>(sc.w), scheme: lscheme(s) };
            let d = || json!({"what":"valid signcryption ciphertext around a hostile inner frame","frame":fname,"frame_bytes":hx(frame),"scheme":s.name()});
            ctx.guard("SignCryptCiphertext::is_valid", d, || std::hint::black_box(bool::from(c.is_valid())));
            ctx.guard("SignCryptCiphertext::decrypt", d, || std::hint::black_box(ct_some(c.decrypt(&env.sk))));
            ctx.guard("SignCryptDecryptionKey::decrypt", d, || std::hint::black_box(ct_some(SignCryptDecryptionKey::<C>(c.u * env.sk.0).decrypt(&c))));
            let ds: Vec<SignDecryptionShare<C>> = env.shares.iter().filter_map(|x| c.create_decryption_share(x).ok()).collect();
            ctx.guard("SignCryptCiphertext::decrypt_with_shares", d, || std::hint::black_box(ct_some(c.decrypt_with_shares(&ds))));
            ctx.hit(&format!("{n}/inner-frame/signcrypt"), &[fname.as_bytes(), &[s.wire()]]);
            // time-lock
            let id = b"frame-id".to_vec();
            let idh: Vec<u8> = if s == Scheme::Aug { let mut m = pk_bytes(&env.pk); m.extend_from_slice(&id); m } else { id.clone() };
            let alpha = gen::random_scalar(&mut rng);
            let guess = refimpl::unframe(frame).unwrap_or_default();
            let tl = refimpl::timelock_seal_frame::<C::R>(pk, frame, &guess, &idh, dst, &alpha);
            let t = TimeCryptCiphertext::<C> { u: lp::<C>(tl.u), v: tl.v, w: tl.w.clone(), scheme: lscheme(s) };
            let sig = wrap_sig::<C>(s, ls::<C>(refimpl::core_sign::<C::R>(&k, &idh, dst)));
            let d = || json!({"what":"time-lock ciphertext around a hostile inner frame","frame":fname,"frame_bytes":hx(frame),"scheme":s.name()});
            ctx.guard("TimeCryptCiphertext::decrypt", d, || std::hint::black_box(ct_some(t.decrypt(&sig))));
            ctx.hit(&format!("{n}/inner-frame/timelock"), &[fname.as_bytes(), &[s.wire()]]);
        }
    }
    let _ = <Sc<C> as Field>::ZERO;
    ctx.sample(&format!("{n}/inner-frame/signcrypt"), || json!({"frames": frames.iter().map(|(n,_)| n.clone()).collect::<Vec<_>>() }));
}
