//! C18 - own-protocol wire formats are stable and independently implementable.

use super::util::*;
use crate::gen::{self, Content};
use crate::golden::{self, Corpus};
use crate::refimpl::{self, RC, RG, SCHEMES};
use crate::suite::*;
use crate::{for_both, hx, Ctx};
use blsful::*;
use serde_json::json;

pub const RULE: &str = "(1) GOLDEN CORPORA /verif/golden/corpus-4bdca94.json (122 artefacts) and corpus-4bdca94-b.json (46 artefacts: caller-supplied ElGamal generator, share identifiers 254/255, 40-signer aggregates, 130- and 16384-byte payloads, challenge r-1), produced by the pinned release: for every data type x group x scheme the bytes / serde_bare / serde_json encodings plus the ground truth (keys, messages, identifiers, plaintexts, challenges). On the current tree every artefact must still decode in all three codecs to equal values, re-encode to the recorded bytes, and verify / decrypt / recombine to its ground truth (signatures also: the current tree must produce the same bytes; ciphertexts and proofs also: the reference implementation must open / accept them). Pinned outputs that were self-inconsistent at generation are flagged in the corpus and judged through what is consistent (SecretKeyEnum raw byte form; MessageAugmentation time-lock ciphertexts open with the raw tagged signature over the identifier). (2) LIVE INTEROP on fresh inputs, reference -> library: signcryption ciphertexts sealed by the reference (own framing, salts, Shake128 keystream) must be valid and decrypt in the library; time-lock ciphertexts sealed by the reference must open with library signatures; proofs of knowledge built by the reference (interactive and with y = H(u || t_le)) must verify; ElGamal proofs built by the reference over its own merlin transcript must verify and decrypt, with the default AND with a caller-supplied message generator (trait-level API, both directions); serde_bare layouts written byte by byte by the reference (variant || point, u || LEB(len) || v || w || scheme, u || v || LEB(len) || w || scheme, variant || u || v [|| t_le64], id || payload) must decode to values equal to the library's own. (library -> reference is exercised by C10-C14 and again by the corpus.) Distinct by (origin, suite, kind, scheme, encoded bytes).";

pub fn corpus_path(ctx: &Ctx) -> std::path::PathBuf {
    ctx.verif_dir.join("golden").join("corpus-4bdca94.json")
}

pub fn run(ctx: &mut Ctx) {
    // corpus B: corners added later (custom ElGamal generator, identifiers 254/255, 40-signer
    // aggregate, long payloads, extreme challenge), generated from the same pinned commit
    let pb = ctx.verif_dir.join("golden").join("corpus-4bdca94-b.json");
    match std::fs::read(&pb).ok().and_then(|b| serde_json::from_slice::<Corpus>(&b).ok()) {
        Some(c) => {
            ctx.note("corpus_b_header", c.header.clone());
            for s in ["G1Impl", "G2Impl"] {
                for cell in golden::expected_cells_extra("pinned-b", s) {
                    ctx.require(&cell);
                }
            }
            for (i, a) in c.artefacts.iter().enumerate() {
                if !ctx.mine(5000 + i as u64) {
                    continue;
                }
                golden::check::<Bls12381G1Impl>(ctx, "C18", "pinned-b", a);
                golden::check::<Bls12381G2Impl>(ctx, "C18", "pinned-b", a);
            }
        }
        None => ctx.harness_error("golden corpus B missing or unreadable".into()),
    }
    let corpus: Option<Corpus> = std::fs::read(corpus_path(ctx)).ok().and_then(|b| serde_json::from_slice(&b).ok());
    match corpus {
        Some(c) => {
            ctx.note("corpus_header", c.header.clone());
            for s in ["G1Impl", "G2Impl"] {
                for cell in golden::expected_cells("pinned", s) {
                    ctx.require(&cell);
                }
            }
            for (i, a) in c.artefacts.iter().enumerate() {
                if !ctx.mine(i as u64) {
                    continue;
                }
                golden::check::<Bls12381G1Impl>(ctx, "C18", "pinned", a);
                golden::check::<Bls12381G2Impl>(ctx, "C18", "pinned", a);
            }
            ctx.exhaustive.push("the committed golden corpus (every artefact)".into());
        }
        None => ctx.harness_error("golden corpus missing or unreadable".into()),
    }
    for_both!(interop, ctx);
}

fn interop<C: Suite>(ctx: &mut Ctx) {
    let base: u64 = if C::NAME == "G1Impl" { 1 << 20 } else { 1 << 32 };
    let n = C::NAME;
    let mut g = base;
    let reps = ctx.tier.pick(6, 600);
    for s in SCHEMES {
        let sn = s.name();
        for c in ["signcrypt", "timelock", "pok", "pok-timestamp", "layout"] {
            ctx.require(&format!("ref->lib/{n}/{c}/{sn}"));
        }
        for rep in 0..reps {
            g += 1;
            if !ctx.mine(g) {
                continue;
            }
            let mut rng = ctx.rng(g);
            let k = gen::random_scalar(&mut rng);
            let sk = sk_from_rs::<C>(&k);
            let pk = sk.public_key();
            let rpk = refimpl::sk_to_pk::<C::R>(&k);
            let len = [0usize, 1, 31, 32, 33, 127, 128, 300, 5000][rep % 9];
            let msg = gen::message(len, Content::Random, &mut rng);
            let dst = <C::R as RC>::dst(s);
            let d = |what: &str| json!({"what":what,"suite":n,"scheme":sn,"sk":hex::encode(k.to_be_bytes()),"msg":hx(&msg)});

            // ---- signcryption sealed by the reference
            let r = gen::random_scalar(&mut rng);
            let sc = refimpl::signcrypt_seal::<C::R>(rpk, &msg, dst, &r);
            // the reference writes the serde_bare layout byte by byte
            let mut wire = sc.u.enc();
            wire.extend(refimpl::leb128(sc.v.len() as u128));
            wire.extend_from_slice(&sc.v);
            wire.extend(sc.w.enc());
            wire.push(s.wire());
            match ctx.guard("SignCryptCiphertext::try_from", || d("decode reference ciphertext"), || SignCryptCiphertext::<C>::try_from(wire.as_slice())) {
                Some(Ok(ct)) => {
                    let ok = bool::from(ct.is_valid()) && ct_some(ct.decrypt(&sk)).as_deref() == Some(&msg[..]);
                    ctx.expect(ok, &format!("C18/library-cannot-open-reference/signcrypt/{n}/{sn}"), || { let mut x = d("a signcryption ciphertext sealed by the independent implementation is invalid or does not decrypt in the library"); x["wire"] = json!(hx(&wire)); x });
                    // and the library's own encoding of the decoded value is the reference's layout
                    ctx.expect(Vec::from(&ct) == wire, &format!("C18/layout/signcrypt/{n}/{sn}"), || d("library re-encoding differs from the reference layout"));
                }
                Some(Err(e)) => ctx.violation(&format!("C18/library-cannot-decode-reference/signcrypt/{n}/{sn}"), { let mut x = d("reference-written serde_bare layout rejected"); x["error"] = json!(e.to_string()); x["wire"] = json!(hx(&wire)); x }),
                None => {}
            }
            ctx.hit(&format!("ref->lib/{n}/signcrypt/{sn}"), &[&wire]);
            ctx.sample(&format!("ref->lib/{n}/signcrypt/{sn}"), || { let mut x = d("reference-sealed signcryption ciphertext opened by the library"); x["wire"] = json!(hx(&wire)); x });

            // ---- time-lock sealed by the reference, opened with a library signature
            let id = gen::message([0usize, 5, 32][rep % 3], Content::Random, &mut rng);
            let idh = if s == refimpl::Scheme::Aug { let mut m = rpk.enc(); m.extend_from_slice(&id); m } else { id.clone() };
            let alpha = gen::random_scalar(&mut rng);
            let tl = refimpl::timelock_seal::<C::R>(rpk, &msg, &idh, dst, &alpha);
            let mut wire = tl.u.enc();
            wire.extend_from_slice(&tl.v);
            wire.extend(refimpl::leb128(tl.w.len() as u128));
            wire.extend_from_slice(&tl.w);
            wire.push(s.wire());
            match ctx.guard("TimeCryptCiphertext::try_from", || d("decode reference time-lock"), || TimeCryptCiphertext::<C>::try_from(wire.as_slice())) {
                Some(Ok(ct)) => {
                    let sig = sk.sign(lscheme(s), &id).expect("sign id");
                    let got = ct_some(ct.decrypt(&sig));
                    ctx.expect(got.as_deref() == Some(&msg[..]), &format!("C18/library-cannot-open-reference/timelock/{n}/{sn}"), || { let mut x = d("a time-lock ciphertext sealed by the independent implementation does not open with the library's signature over the identifier"); x["id"] = json!(hx(&id)); x["wire"] = json!(hx(&wire)); x });
                    ctx.expect(Vec::from(&ct) == wire, &format!("C18/layout/timelock/{n}/{sn}"), || d("library re-encoding differs from the reference layout"));
                }
                Some(Err(e)) => ctx.violation(&format!("C18/library-cannot-decode-reference/timelock/{n}/{sn}"), { let mut x = d("reference-written serde_bare layout rejected"); x["error"] = json!(e.to_string()); x }),
                None => {}
            }
            ctx.hit(&format!("ref->lib/{n}/timelock/{sn}"), &[&wire]);

            // ---- proofs of knowledge built by the reference
            let pmsg = if s == refimpl::Scheme::Aug { let mut m = rpk.enc(); m.extend_from_slice(&msg); m } else { msg.clone() };
            let rsig = refimpl::sign::<C::R>(s, &k, &msg);
            let x = gen::random_scalar(&mut rng);
            let y = gen::random_scalar(&mut rng);
            let (u, v) = refimpl::pok_prove::<C::R>(rsig, &pmsg, dst, &x, &y);
            let mut wire = vec![s.wire()];
            wire.extend(u.enc());
            wire.extend(v.enc());
            let ly = ProofCommitmentChallenge::<C>(sc_from_rs::<C>(&y));
            match ProofOfKnowledge::<C>::try_from(wire.as_slice()) {
                Ok(p) => {
                    let ok = ctx.guard("ProofOfKnowledge::verify", || d("verify reference proof"), || p.verify(pk, &pmsg, ly).is_ok());
                    ctx.expect(ok == Some(true), &format!("C18/library-rejects-reference/pok/{n}/{sn}"), || d("a proof of knowledge built by the independent implementation is rejected"));
                    ctx.expect(Vec::from(&p) == wire, &format!("C18/layout/pok/{n}/{sn}"), || d("library re-encoding differs from the reference layout"));
                }
                Err(e) => ctx.violation(&format!("C18/library-cannot-decode-reference/pok/{n}/{sn}"), json!({"error":e.to_string()})),
            }
            ctx.hit(&format!("ref->lib/{n}/pok/{sn}"), &[&wire]);
            // timestamp variant: y = H(u || t_le), no timeout
            let t: u64 = 1_600_000_000_000 + rep as u64 * 977;
            let u2 = <C::R as RC>::Sig::hash(&pmsg, dst).mul(&x);
            let y2 = refimpl::pok_y::<C::R>(u2, t);
            let (u2, v2) = refimpl::pok_prove::<C::R>(rsig, &pmsg, dst, &x, &y2);
            let mut wire = vec![s.wire()];
            wire.extend(u2.enc());
            wire.extend(v2.enc());
            wire.extend_from_slice(&t.to_le_bytes());
            match ProofOfKnowledgeTimestamp::<C>::try_from(wire.as_slice()) {
                Ok(p) => {
                    let ok = ctx.guard("ProofOfKnowledgeTimestamp::verify", || d("verify reference timestamp proof"), || p.verify(pk, &pmsg, None).is_ok());
                    ctx.expect(ok == Some(true) && p.timestamp == t, &format!("C18/library-rejects-reference/pok-timestamp/{n}/{sn}"), || d("a timestamp proof built by the independent implementation (y = H(u || t_le)) is rejected"));
                    ctx.expect(Vec::from(&p) == wire, &format!("C18/layout/pok-timestamp/{n}/{sn}"), || d("library re-encoding differs from the reference layout"));
                }
                Err(e) => ctx.violation(&format!("C18/library-cannot-decode-reference/pok-timestamp/{n}/{sn}"), json!({"error":e.to_string()})),
            }
            ctx.hit(&format!("ref->lib/{n}/pok-timestamp/{sn}"), &[&wire]);

            // ---- simple layouts: signature, share containers
            let mut wire = vec![s.wire()];
            wire.extend(rsig.enc());
            let ok = matches!(Signature::<C>::try_from(wire.as_slice()), Ok(sg) if sg.verify(&pk, &msg).is_ok() && Vec::from(&sg) == wire);
            ctx.expect(ok, &format!("C18/layout/signature/{n}/{sn}"), || d("variant || compressed point is not the signature layout"));
            let shares = sk.split(2, 3).expect("split");
            let (id0, v0) = sk_share_parts::<C>(&shares[0]);
            let mut w = vec![id0];
            w.extend_from_slice(&v0.to_le_bytes());
            ctx.expect(Vec::from(&shares[0]) == w, &format!("C18/layout/secret-key-share/{n}"), || d("id || little-endian scalar is not the secret share layout"));
            let pks = shares[0].public_key().expect("pk share");
            let mut w = vec![id0];
            w.extend(refimpl::sk_to_pk::<C::R>(&v0).enc());
            ctx.expect(Vec::from(&pks) == w, &format!("C18/layout/public-key-share/{n}"), || d("id || compressed point is not the public-key share layout"));
            if s != refimpl::Scheme::Aug {
                let ss = shares[0].sign(lscheme(s), &msg).expect("partial");
                let mut w = vec![s.wire(), id0];
                w.extend(refimpl::sign::<C::R>(s, &v0, &msg).enc());
                ctx.expect(Vec::from(&ss) == w, &format!("C18/layout/signature-share/{n}/{sn}"), || d("scheme || id || compressed point is not the signature share layout"));
            }
            ctx.hit(&format!("ref->lib/{n}/layout/{sn}"), &[&wire]);
        }
    }
    // ---- ElGamal proofs built by the reference
    ctx.require(&format!("ref->lib/{n}/elgamal"));
    for _ in 0..ctx.tier.pick(6, 300) {
        g += 1;
        if !ctx.mine(g) {
            continue;
        }
        let mut rng = ctx.rng(g);
        let k = gen::random_scalar(&mut rng);
        let sk = sk_from_rs::<C>(&k);
        let pk = sk.public_key();
        let m = gen::random_scalar(&mut rng);
        let (b, r) = (gen::random_scalar(&mut rng), gen::random_scalar(&mut rng));
        let rp = refimpl::elgamal_prove::<C::R>(refimpl::sk_to_pk::<C::R>(&k), &m, &b, &r);
        let lp_ = ElGamalProof::<C> {
            ciphertext: ElGamalCiphertext { c1: lp::<C>(rp.c1), c2: lp::<C>(rp.c2) },
            message_proof: sc_from_rs::<C>(&rp.message_proof),
            blinder_proof: sc_from_rs::<C>(&rp.blinder_proof),
            challenge: sc_from_rs::<C>(&rp.challenge),
        };
        let want = refimpl::elgamal_generator::<C::R>().mul(&m).enc();
        let ok = lp_.verify(pk).is_ok() && lp_.verify_and_decrypt(&sk).ok().map(|p| enc_pt(&p)) == Some(want);
        ctx.expect(ok, &format!("C18/library-rejects-reference/elgamal/{n}"), || json!({"what":"an ElGamal proof built by the independent implementation over its own merlin transcript is rejected or decrypts wrongly","proof":hex::encode(Vec::from(&lp_))}));
        ctx.hit(&format!("ref->lib/{n}/elgamal"), &[&Vec::from(&lp_)]);
        // the trait-level API takes a caller-supplied message generator: it goes into the
        // transcript under the label "generator" - both directions with a non-default generator
        {
            let hk = gen::random_scalar(&mut rng);
            let h = <C::R as RC>::Pk::gen().mul(&hk);
            let lh = lp::<C>(h);
            let rpk = refimpl::sk_to_pk::<C::R>(&k);
            let (b2, r2) = (gen::random_scalar(&mut rng), gen::random_scalar(&mut rng));
            let rp = refimpl::elgamal_prove_gen::<C::R>(rpk, h, &m, &b2, &r2);
            let ok = <C as BlsElGamal>::verify_proof(pk.0, Some(lh), lp::<C>(rp.c1), lp::<C>(rp.c2), sc_from_rs::<C>(&rp.message_proof), sc_from_rs::<C>(&rp.blinder_proof), sc_from_rs::<C>(&rp.challenge)).is_ok();
            ctx.expect(ok, &format!("C18/library-rejects-reference/elgamal-custom-generator/{n}"), || json!({"what":"the library rejects a reference-built ElGamal proof over a caller-supplied generator (transcript label `generator`)"}));
            let rng2 = { use rand_core::SeedableRng; rand_chacha::ChaCha20Rng::from_seed([7u8; 32]) };
            match <C as BlsElGamal>::seal_scalar_with_proof(pk.0, sc_from_rs::<C>(&m), Some(lh), None, rng2) {
                Ok((c1, c2, mp, bp, ch)) => {
                    let p = refimpl::RElGamalProof::<C::R> {
                        c1: RPk::<C>::dec(&enc_pt(&c1)).unwrap_or(RPk::<C>::id()),
                        c2: RPk::<C>::dec(&enc_pt(&c2)).unwrap_or(RPk::<C>::id()),
                        message_proof: rs_from_sc::<C>(&mp),
                        blinder_proof: rs_from_sc::<C>(&bp),
                        challenge: rs_from_sc::<C>(&ch),
                    };
                    ctx.expect(refimpl::elgamal_verify_gen::<C::R>(rpk, h, &p), &format!("C18/reference-rejects-library/elgamal-custom-generator/{n}"), || json!({"what":"the reference rejects a library-built ElGamal proof over a caller-supplied generator"}));
                    // and it decrypts to m*h
                    let dec = <C as BlsElGamal>::verify_and_decrypt(sk.0, Some(lh), c1, c2, mp, bp, ch).ok().map(|p| enc_pt(&p));
                    ctx.expect(dec == Some(h.mul(&m).enc()), &format!("C18/custom-generator-decrypt/{n}"), || json!({"what":"verify_and_decrypt over a caller-supplied generator does not return m*h"}));
                }
                Err(e) => ctx.violation(&format!("C18/custom-generator-seal-failed/{n}"), json!({"error":e.to_string()})),
            }
            ctx.hit(&format!("ref->lib/{n}/elgamal"), &[b"custom-generator", &h.enc()]);
        }
    }
}
