//! C19 - the two arithmetic backends are interchangeable.
//!
//! The harness is built twice (blst backend, pure-Rust backend). Phase "emit": both builds
//! write (a) a transcript of deterministic operations {i, op, out} and (b) randomized
//! artefacts with ground truth. Phase "check": an offline comparator requires the two
//! transcripts to be identical line by line, and each build consumes the artefacts the OTHER
//! build produced and judges them against their ground truth.

use super::util::*;
use crate::gen::{self, Content};
use crate::golden::{self, Artefact};
use crate::refimpl::{Scheme, SCHEMES};
use crate::suite::*;
use crate::Ctx;
use blsful::inner_types::{Group, GroupEncoding};
use blsful::*;
use serde_json::json;
use std::io::{BufRead, Write};

pub const RULE: &str = "emit phase (both builds, same seed, same sharding): transcript lines {i, op, out_hex} for seeds -> SecretKey::from_hash, SecretKey::random / random_proof_challenge with a known-stream RNG, public_key, sign x 3 schemes, proof_of_possession, AggregateSignature / MultiSignature / MultiPublicKey accumulation, ProofCommitmentChallenge::from_hash, compute_y, hash_to_scalar, message_generator, seal_scalar with a fixed blinder, signcryption compute_w, the pairing value's byte encoding (what time-lock hashes), the tag constants, verdicts of verify / proof-of-possession / aggregate verification on fixed inputs (incl. the same pair listed twice with one copy of the key decoded from bytes), share combination (SecretKey::combine, PublicKey::from_shares, partial signatures and Signature::from_shares over harness-built share sets with identifiers up to 255, in three orders), the same signing operations for the edge keys 1, 2, 3, r-1, r-2, 2^254, ..., the scalar importers (be / le / TryFrom / serde) on the encodings 0, 1, r-1, r, r+1, 2r, 2r+1, 2^255, 2^256-1, and the bytes / serde_bare / serde_json encodings of those deterministic values; plus randomized artefact sets (ciphertexts x lengths, proofs, share sets, with ground truth) from several worker processes per build. check phase: (a) the blst and the rust transcript files must be identical line by line; (b) every artefact produced by one build is decoded, re-encoded and judged against its ground truth by the OTHER build (signatures and PoPs must also be reproduced byte for byte by the consuming build). Distinct by transcript line / artefact bytes; evaluations = lines compared + artefacts consumed.";

pub fn run(ctx: &mut Ctx) {
    match ctx.phase.as_str() {
        "emit" => emit(ctx),
        "check" => check(ctx),
        _ => ctx.harness_error("C19 needs --phase emit|check (run it through ./check)".into()),
    }
}

fn lines_for<C: Suite>(ctx: &Ctx, i: u64, out: &mut Vec<(String, Vec<u8>)>) {
    let mut rng = ctx.rng(i);
    let n = C::NAME;
    let mut push = |op: &str, v: Vec<u8>| out.push((format!("{n}/{op}"), v));
    let seed = gen::random_bytes((i % 70) as usize, &mut rng);
    let sk = SecretKey::<C>::from_hash(&seed);
    push("from_hash", sk.to_be_bytes().to_vec());
    let stream = gen::random_bytes(64, &mut rng);
    push("SecretKey::random(known rng)", SecretKey::<C>::random(KnownRng::new(stream.clone())).to_be_bytes().to_vec());
    push("random_proof_challenge(known rng)", ProofCommitmentChallenge::<C>::random(KnownRng::new(stream.clone())).to_be_bytes().to_vec());
    let pk = sk.public_key();
    push("public_key", pk_bytes(&pk));
    let len = gen::LENGTHS_QUICK[(i as usize) % gen::LENGTHS_QUICK.len()];
    let msg = gen::message(len, Content::Random, &mut rng);
    let mut sigs = Vec::new();
    for s in SCHEMES {
        let sig = sk.sign(lscheme(s), &msg).expect("sign");
        push(&format!("sign/{}", s.name()), Vec::from(&sig));
        push(&format!("sign/{}/bare", s.name()), serde_bare::to_vec(&sig).unwrap_or_default());
        push(&format!("sign/{}/json", s.name()), serde_json::to_vec(&sig).unwrap_or_default());
        sigs.push(sig);
    }
    push("proof_of_possession", sk.proof_of_possession().map(|p| Vec::from(&p)).unwrap_or_default());
    // accumulation of three signers
    let ks: Vec<SecretKey<C>> = (0..3).map(|j| SecretKey::<C>::from_hash([&seed[..], &[j as u8]].concat())).collect();
    for s in SCHEMES {
        let ss: Vec<Signature<C>> = ks.iter().enumerate().map(|(j, k)| k.sign(lscheme(s), &[&msg[..], &[j as u8]].concat()).expect("sign")).collect();
        push(&format!("aggregate/{}", s.name()), AggregateSignature::<C>::from_signatures(&ss).map(|a| Vec::from(&a)).unwrap_or_default());
        if s != Scheme::Aug {
            let ss: Vec<Signature<C>> = ks.iter().map(|k| k.sign(lscheme(s), &msg).expect("sign")).collect();
            push(&format!("multi/{}", s.name()), MultiSignature::<C>::from_signatures(&ss).map(|a| Vec::from(&a)).unwrap_or_default());
        }
    }
    push("multi_public_key", Vec::from(&MultiPublicKey::<C>::from_public_keys(ks.iter().map(|k| k.public_key()).collect::<Vec<_>>())));
    let y = ProofCommitmentChallenge::<C>::from_hash(&seed);
    push("challenge_from_hash", y.to_be_bytes().to_vec());
    let u = *sigs[0].as_raw_value();
    let t = 1_700_000_000_000u64 + i * 7919;
    let cy = <C as BlsSignatureProof>::compute_y(u, t);
    push("compute_y", rs_from_sc::<C>(&cy).to_be_bytes().to_vec());
    push("hash_to_scalar", rs_from_sc::<C>(&<C as HashToScalar>::hash_to_scalar(&msg, b"C19 transcript salt")).to_be_bytes().to_vec());
    push("hash_to_point", enc_pt(&<C as HashToPoint>::hash_to_point(&msg, b"C19 transcript dst")));
    push("message_generator", enc_pt(&<C as BlsElGamal>::message_generator()));
    let blinder = <C as HashToScalar>::hash_to_scalar(&seed, b"C19 blinder");
    if let Ok((c1, c2)) = <C as BlsElGamal>::seal_scalar(pk.0, sk.0, None, Some(blinder), KnownRng::new(stream.clone())) {
        push("elgamal_seal_fixed_blinder", [enc_pt(&c1), enc_pt(&c2)].concat());
    }
    let w = <C as BlsSignCrypt>::compute_w(pk.0, &msg, <C as BlsSignatureBasic>::DST);
    push("signcrypt_compute_w", enc_pt(&w));
    push("signcrypt_compute_v", <C as BlsSignCrypt>::compute_v(pk.0, &msg));
    let gt = <C as Pairing>::pairing(&[(u, pk.0)]);
    push("pairing_bytes", gt.to_bytes().as_ref().to_vec());
    push("timelock_compute_v", <C as BlsTimeCrypt>::compute_v(gt, &[0x11u8; 32]).to_vec());
    push("timelock_compute_w", <C as BlsTimeCrypt>::compute_w(&[0x22u8; 32], &msg));
    // verdicts of the consumers on fixed inputs (a backend-dependent decision shows as a differing
    // line): signatures, proof of possession, aggregates - also with the same (key, message) pair
    // listed twice, once with both copies of the key as computed and once with the second copy
    // decoded from its bytes (another in-memory representation of the same point)
    {
        let v = |b: bool| vec![b as u8];
        for (si, s) in SCHEMES.iter().enumerate() {
            push(&format!("verdict/verify/{}", s.name()), v(sigs[si].verify(&pk, &msg).is_ok()));
            push(&format!("verdict/verify-other-msg/{}", s.name()), v(sigs[si].verify(&pk, &seed).is_ok()));
            let two = [sigs[si], sigs[si]];
            if let Ok(agg) = AggregateSignature::<C>::from_signatures(&two[..]) {
                let same = vec![(pk, msg.clone()), (pk, msg.clone())];
                push(&format!("verdict/aggregate-same-pair-twice/{}", s.name()), v(agg.verify(&same).is_ok()));
                if let Ok(decoded) = PublicKey::<C>::try_from(pk_bytes(&pk).as_slice()) {
                    let mixed = vec![(pk, msg.clone()), (decoded, msg.clone())];
                    push(&format!("verdict/aggregate-same-pair-twice-second-decoded/{}", s.name()), v(agg.verify(&mixed).is_ok()));
                    let mixed2 = vec![(decoded, msg.clone()), (pk, msg.clone())];
                    push(&format!("verdict/aggregate-same-pair-twice-first-decoded/{}", s.name()), v(agg.verify(&mixed2).is_ok()));
                }
            }
        }
        if let Ok(pop) = sk.proof_of_possession() {
            push("verdict/pop-own-key", v(pop.verify(pk).is_ok()));
            push("verdict/pop-other-key", v(pop.verify(ks[0].public_key()).is_ok()));
        }
    }
    // share combination over a share set built by the harness (f(x) = sk + a1*x, a1 hash-derived;
    // identifiers vary with i and reach 255), and the same operations for an edge key
    {
        use blsful::vsss_rs::Share;
        let s0 = rs_from_sc::<C>(&sk.0);
        let a1 = crate::refimpl::keygen(&[&seed[..], b"a1"].concat());
        let ids: [u8; 3] = [1 + (i % 7) as u8, 100 + (i % 50) as u8, 255 - (i % 3) as u8];
        let mut shares: Vec<SecretKeyShare<C>> = Vec::new();
        for id in ids {
            let val = s0 + a1 * crate::refimpl::RS::from(id as u64);
            let mut le = val.to_be_bytes();
            le.reverse();
            let mut inner = <<C as Pairing>::SecretKeyShare as Share>::empty_share_with_capacity(32);
            *inner.identifier_mut() = id;
            if inner.value_mut(&le).is_ok() {
                shares.push(SecretKeyShare::<C>(inner));
            }
        }
        if shares.len() == 3 {
            for (sn, set) in [("first-two", vec![shares[0].clone(), shares[1].clone()]), ("last-two-reversed", vec![shares[2].clone(), shares[1].clone()]), ("all", shares.clone())] {
                push(&format!("combine/{sn}"), SecretKey::<C>::combine(&set).map(|k| k.to_be_bytes().to_vec()).unwrap_or_else(|_| b"Err".to_vec()));
                let pks: Vec<PublicKeyShare<C>> = set.iter().filter_map(|x| x.public_key().ok()).collect();
                push(&format!("public_key_from_shares/{sn}"), PublicKey::<C>::from_shares(&pks).map(|k| pk_bytes(&k)).unwrap_or_else(|_| b"Err".to_vec()));
                for s in [Scheme::Basic, Scheme::Pop] {
                    let parts: Vec<SignatureShare<C>> = set.iter().filter_map(|x| x.sign(lscheme(s), &msg).ok()).collect();
                    push(&format!("partial_sign/{sn}/{}", s.name()), parts.iter().flat_map(|p| Vec::from(p)).collect());
                    push(&format!("signature_from_shares/{sn}/{}", s.name()), Signature::<C>::from_shares(&parts).map(|k| Vec::from(&k)).unwrap_or_else(|_| b"Err".to_vec()));
                }
            }
        }
        let edges = gen::edge_scalars(&mut KnownRng::new(vec![7u8; 64]));
        let ek = sk_from_rs::<C>(&edges[(i % 8) as usize].1);
        push("edge/public_key", pk_bytes(&ek.public_key()));
        for s in SCHEMES {
            push(&format!("edge/sign/{}", s.name()), ek.sign(lscheme(s), &msg).map(|x| Vec::from(&x)).unwrap_or_default());
        }
        push("edge/proof_of_possession", ek.proof_of_possession().map(|p| Vec::from(&p)).unwrap_or_default());
        if let Ok((c1, c2)) = <C as BlsElGamal>::seal_scalar(pk.0, ek.0, None, Some(blinder), KnownRng::new(stream.clone())) {
            push("edge/elgamal_seal_fixed_blinder", [enc_pt(&c1), enc_pt(&c2)].concat());
        }
    }
    // encodings of deterministic values
    push("sk/bytes", Vec::from(&sk));
    push("sk/bare", serde_bare::to_vec(&sk).unwrap_or_default());
    push("sk/json", serde_json::to_vec(&sk).unwrap_or_default());
    push("pk/bare", serde_bare::to_vec(&pk).unwrap_or_default());
    push("pk/json", serde_json::to_vec(&pk).unwrap_or_default());
    push("challenge/bare", serde_bare::to_vec(&y).unwrap_or_default());
    push("challenge/json", serde_json::to_vec(&y).unwrap_or_default());
    let e = match C::CURVE {
        Bls12381::G1 => SecretKeyEnum::G1(SecretKey::<Bls12381G1Impl>::from_hash(&seed)),
        Bls12381::G2 => SecretKeyEnum::G2(SecretKey::<Bls12381G2Impl>::from_hash(&seed)),
    };
    push("sk_enum/bytes", Vec::from(&e));
    push("sk_enum/json", serde_json::to_vec(&e).unwrap_or_default());
    if i == 0 {
        for (name, be) in gen::special_scalar_encodings() {
            let mut le = be;
            le.reverse();
            let o = |k: Option<[u8; 32]>| k.map(|b| b.to_vec()).unwrap_or_else(|| b"None".to_vec());
            push(&format!("import/{name}/SecretKey::from_be_bytes"), o(ct_some(SecretKey::<C>::from_be_bytes(&be)).map(|k| k.to_be_bytes())));
            push(&format!("import/{name}/SecretKey::from_le_bytes"), o(ct_some(SecretKey::<C>::from_le_bytes(&le)).map(|k| k.to_be_bytes())));
            push(&format!("import/{name}/SecretKey::try_from"), o(SecretKey::<C>::try_from(&be[..]).ok().map(|k| k.to_be_bytes())));
            push(&format!("import/{name}/ProofCommitmentSecret::from_le_bytes"), o(ct_some(ProofCommitmentSecret::<C>::from_le_bytes(&le)).map(|k| k.to_be_bytes())));
            push(&format!("import/{name}/ProofCommitmentChallenge::from_be_bytes"), o(ct_some(ProofCommitmentChallenge::<C>::from_be_bytes(&be)).map(|k| k.to_be_bytes())));
            push(&format!("import/{name}/ProofCommitmentChallenge::from_le_bytes"), o(ct_some(ProofCommitmentChallenge::<C>::from_le_bytes(&le)).map(|k| k.to_be_bytes())));
            let mut t = vec![u8::from(C::CURVE)];
            t.extend_from_slice(&le);
            let e = ct_some(SecretKeyEnum::from_le_bytes(&t)).map(|e| Vec::from(&e)).unwrap_or_else(|| b"None".to_vec());
            push(&format!("import/{name}/SecretKeyEnum::from_le_bytes"), e);
            // serde forms of the same 32 bytes
            push(&format!("import/{name}/SecretKey::serde_bare(be)"), o(serde_bare::from_slice::<SecretKey<C>>(&be).ok().map(|k| k.to_be_bytes())));
            push(&format!("import/{name}/SecretKey::serde_bare(le)"), o(serde_bare::from_slice::<SecretKey<C>>(&le).ok().map(|k| k.to_be_bytes())));
            let js = format!("\"{}\"", hex::encode(be));
            push(&format!("import/{name}/SecretKey::serde_json(be-hex)"), o(serde_json::from_str::<SecretKey<C>>(&js).ok().map(|k| k.to_be_bytes())));
        }
        push("tags", [<C as BlsSignatureBasic>::DST, <C as BlsSignatureMessageAugmentation>::DST, <C as BlsSignaturePop>::SIG_DST, <C as BlsSignaturePop>::POP_DST, <C as BlsElGamal>::ENC_DST].concat());
        push("identity_pairing_bytes", <<C as Pairing>::PairingResult as Group>::identity().to_bytes().as_ref().to_vec());
    }
}

fn emit(ctx: &mut Ctx) {
    let backend = ctx.backend();
    let tdir = ctx.work_dir(&format!("transcript-{backend}"));
    let adir = ctx.work_dir(&format!("artefacts-{backend}"));
    let total = ctx.tier.pick(192u64, 960);
    let path = tdir.join(format!("worker-{:02}.jsonl", ctx.worker));
    let Ok(f) = std::fs::File::create(&path) else {
        ctx.harness_error(format!("cannot write {path:?}"));
        return;
    };
    let mut f = std::io::BufWriter::new(f);
    let mut nlines = 0u64;
    for i in 0..total {
        if !ctx.mine(i) {
            continue;
        }
        let mut out = Vec::new();
        lines_for::<Bls12381G1Impl>(ctx, i, &mut out);
        lines_for::<Bls12381G2Impl>(ctx, i, &mut out);
        for (op, v) in out {
            let _ = writeln!(f, "{}", json!({"i": i, "op": op, "out": hex::encode(v)}));
            nlines += 1;
        }
    }
    let _ = f.flush();
    ctx.evaluations += nlines;
    ctx.count(&format!("transcript_lines/{backend}"), nlines);
    // randomized artefacts from several processes
    let producers = ctx.tier.pick(3usize, 16);
    if ctx.worker < producers {
        let tag = format!("c19/{backend}/seed{}/worker{}", ctx.seed, ctx.worker);
        let mut arts = golden::generate::<Bls12381G1Impl>(&tag);
        arts.extend(golden::generate::<Bls12381G2Impl>(&tag));
        ctx.count(&format!("artefacts_produced/{backend}"), arts.len() as u64);
        ctx.evaluations += arts.len() as u64;
        let p = adir.join(format!("worker-{:02}.json", ctx.worker));
        if std::fs::write(&p, serde_json::to_vec(&arts).unwrap()).is_err() {
            ctx.harness_error(format!("cannot write {p:?}"));
        }
    }
}

fn read_lines(dir: &std::path::Path) -> Vec<String> {
    let mut files: Vec<_> = std::fs::read_dir(dir).map(|d| d.filter_map(|e| e.ok().map(|e| e.path())).collect()).unwrap_or_default();
    files.sort();
    let mut out = Vec::new();
    for p in files {
        if let Ok(f) = std::fs::File::open(&p) {
            out.extend(std::io::BufReader::new(f).lines().map_while(Result::ok));
        }
    }
    out
}

fn check(ctx: &mut Ctx) {
    let backend = ctx.backend();
    let other = if backend == "blst" { "rust" } else { "blst" };
    // (a) transcript comparison, done once (by worker 0 of the blst build)
    ctx.require("transcript/identical-lines");
    if backend == "blst" && ctx.worker == 0 {
        let a = read_lines(&ctx.work_dir("transcript-blst"));
        let b = read_lines(&ctx.work_dir("transcript-rust"));
        if a.is_empty() || b.is_empty() {
            ctx.harness_error(format!("transcripts missing: blst={} rust={} lines", a.len(), b.len()));
        } else {
            if a.len() != b.len() {
                ctx.violation("C19/transcript/length-differs", json!({"blst_lines": a.len(), "rust_lines": b.len()}));
            }
            for (la, lb) in a.iter().zip(b.iter()) {
                let va: serde_json::Value = serde_json::from_str(la).unwrap_or_default();
                if la != lb {
                    let vb: serde_json::Value = serde_json::from_str(lb).unwrap_or_default();
                    let op = va["op"].as_str().unwrap_or("?").to_string();
                    let opk = op.splitn(2, '/').nth(1).unwrap_or(&op).to_string();
                    ctx.violation(&format!("C19/transcript/{opk}"), json!({"what":"the two backends compute different bytes for a deterministic operation","blst": va, "rust": vb}));
                } else {
                    ctx.hit("transcript/identical-lines", &[la.as_bytes()]);
                }
                if ctx.samples.len() < 3 {
                    ctx.samples.push(json!({"transcript_line": va}));
                }
            }
            ctx.count("transcript_lines_compared", a.len().min(b.len()) as u64);
        }
    }
    // (b) consume what the OTHER build produced
    let dir = ctx.work_dir(&format!("artefacts-{other}"));
    let mut files: Vec<_> = std::fs::read_dir(&dir).map(|d| d.filter_map(|e| e.ok().map(|e| e.path())).collect()).unwrap_or_default();
    files.sort();
    let origin = format!("{other}->{backend}");
    for s in ["G1Impl", "G2Impl"] {
        for cell in golden::expected_cells(&origin, s) {
            ctx.require(&cell);
        }
    }
    if files.is_empty() && ctx.worker == 0 {
        ctx.harness_error(format!("no artefacts of the {other} build found"));
    }
    let mut idx = 0u64;
    for p in files {
        let arts: Vec<Artefact> = std::fs::read(&p).ok().and_then(|b| serde_json::from_slice(&b).ok()).unwrap_or_default();
        for a in arts {
            idx += 1;
            if !ctx.mine(idx) {
                continue;
            }
            golden::check::<Bls12381G1Impl>(ctx, "C19", &origin, &a);
            golden::check::<Bls12381G2Impl>(ctx, "C19", &origin, &a);
            ctx.count(&format!("artefacts_consumed/{origin}"), 1);
        }
    }
}
