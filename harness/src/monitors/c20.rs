//! C20 - every randomized operation draws fresh randomness.
//!
//! Two phases. "emit": every worker is a separate PROCESS that starts several threads; each
//! thread calls every randomized entry point N times with IDENTICAL arguments and appends the
//! public image of every ephemeral value to an event log. "check": an offline checker reads
//! all logs of all processes and threads and requires global distinctness per observable pool.


use crate::refimpl::{self, RG, RS};
use crate::suite::*;
use crate::{Ctx, Tier};
use blsful::vsss_rs::Share;
use blsful::*;
use serde::{Deserialize, Serialize};
use serde_json::json;
use std::collections::HashMap;
use std::io::{BufRead, Write};

pub const RULE: &str = "emit phase: 16 worker PROCESSES x 4 threads; every thread performs (1) HOMOGENEOUS sequences - n consecutive calls of ONE entry point with identical arguments (n = 80 per thread and group in the quick tier, 320 in the thorough tier, four times that for the cheap entry points SecretKey::new, ProofCommitmentChallenge::new and sign_crypt - i.e. 2560 / 10240 sign_crypt calls per PROCESS and N = 20480 / 81920 over all processes; a generator that recycles state with a period <= n is visible whatever happens in between) for SecretKey::new, ProofCommitmentChallenge::new, sign_crypt, encrypt_time_lock, encrypt_key_el_gamal, ProofCommitment::generate, split - (3) ARGUMENT CLASSES: k = max(6, n/12) consecutive calls with identical arguments per class for encrypt_time_lock (3 schemes x identifier lengths {0,1,31,32,33,64,200} and x message lengths of the same set), sign_crypt (3 schemes x the same message lengths), ProofCommitment::generate and ProofOfKnowledgeTimestamp::generate (3 schemes), ElGamal with plaintext keys 1, r-1, 2, split with (2,2),(2,3),(3,5),(10,20): freshness must not depend on what is encrypted - and (2) an INTERLEAVED sequence in which every randomized entry point is called once per round and ALL observables are logged, for both groups: SecretKey::new and its other doors (BlsSignature::new_secret_key, SecretKeyEnum::new, SecretKey::random / BlsSignature::random_secret_key with a freshly OS-seeded generator), the challenge doors (ProofCommitmentChallenge::new / ::random, BlsSignature::new_proof_challenge / random_proof_challenge), split_with_rng, SecretKey::split (3-of-5: the polynomial coefficients a1,a2 are recovered from the shares), ProofCommitmentChallenge::new, PublicKey::sign_crypt (u, v), encrypt_time_lock (u, v), encrypt_key_el_gamal (c1), encrypt_key_el_gamal_with_proof (c1 and r1 = P*blinder_proof - c1*challenge), ProofCommitment::generate (u and secret x), ProofOfKnowledgeTimestamp::generate (u), and the trait-level BlsElGamal::seal_scalar_with_proof with a caller-supplied blinder (its proof nonce r1 must still be fresh). Each observable is logged as {pid, tid, seq, entry, pool, value}. check phase (offline, over ALL logs): within each pool - scalars per suite, key-group points per suite, signature-group points per suite, masks - every value must be globally distinct across calls, threads and processes; pools are shared across entry points so a value reused between two entry points (e.g. the same r in signcryption and time-lock) shows as equal u. A collision is reported with both witnesses. distinct_nontrivial = number of distinct observable values seen; evaluations = number of observables checked. A generator that is weak but never repeats is observationally indistinguishable and not claimed.";

#[derive(Serialize, Deserialize, Clone)]
struct Ev {
    pid: u32,
    tid: u32,
    seq: u32,
    entry: String,
    pool: String,
    value: String,
}

pub fn run(ctx: &mut Ctx) {
    match ctx.phase.as_str() {
        "emit" => emit(ctx),
        "check" => check(ctx),
        _ => ctx.harness_error("C20 needs --phase emit|check (run it through ./check)".into()),
    }
}

fn calls_per_thread(t: Tier) -> u32 {
    // 16 processes x 4 threads x this = N per entry point and suite
    // homogeneous calls per entry point, thread and group (x 64 threads = N per entry point)
    t.pick(80, 320)
}

fn one_thread<C: Suite>(pid: u32, tid: u32, n: u32, out: &mut Vec<Ev>) {
    let s = C::NAME;
    // identical arguments in every call, every thread, every process
    let sk = sk_from_rs::<C>(&refimpl::keygen(b"C20 fixed recipient key"));
    let pk = sk.public_key();
    let msg = b"C20 fixed message".to_vec();
    let id = b"C20 fixed id".to_vec();
    let sig = sk.sign(SignatureSchemes::ProofOfPossession, &msg).expect("sign");
    let m = sk_from_rs::<C>(&refimpl::keygen(b"C20 fixed plaintext key"));
    let mut push = |seq: u32, entry: &str, pool: &str, value: Vec<u8>| {
        out.push(Ev { pid, tid, seq, entry: entry.to_string(), pool: format!("{s}/{pool}"), value: hex::encode(value) });
    };
    // (1) HOMOGENEOUS sequences: n consecutive calls of ONE entry point with identical arguments
    //     (a generator that recycles state with some period shows up here whatever the other
    //     entry points do in between)
    for seq in 10000..10000 + n * 4 {
        push(seq, "SecretKey::new", "scalar", SecretKey::<C>::new().to_be_bytes().to_vec());
    }
    for seq in 20000..20000 + n * 4 {
        push(seq, "ProofCommitmentChallenge::new", "scalar", ProofCommitmentChallenge::<C>::new().to_be_bytes().to_vec());
    }
    for seq in 30000..30000 + n * 4 {
        let ct = pk.sign_crypt(SignatureSchemes::Basic, &msg);
        push(seq, "PublicKey::sign_crypt/u", "pk-point", enc_pt(&ct.u));
    }
    for seq in 40000..40000 + n {
        if let Ok(t) = pk.encrypt_time_lock(SignatureSchemes::Basic, &msg, &id) {
            push(seq, "PublicKey::encrypt_time_lock/u", "pk-point", enc_pt(&t.u));
        }
    }
    for seq in 50000..50000 + n {
        if let Ok(e) = pk.encrypt_key_el_gamal(&m) {
            push(seq, "PublicKey::encrypt_key_el_gamal/c1", "pk-point", enc_pt(&e.c1));
        }
    }
    for seq in 60000..60000 + n {
        if let Ok((com, x)) = ProofCommitment::<C>::generate(&msg, sig) {
            let _ = com;
            push(seq, "ProofCommitment::generate/x", "scalar", x.to_be_bytes().to_vec());
        }
    }
    for seq in 70000..70000 + n {
        if let Ok(shares) = sk.split(2, 3) {
            let mut v = shares[0].0.value_vec();
            v.reverse();
            push(seq, "SecretKey::split", "scalar", v);
        }
    }
    // (3) ARGUMENT CLASSES: the same entry points with other arguments - every scheme, message
    //     and identifier lengths around 32 and 64 bytes (hash block / seed sizes), edge plaintext
    //     keys, several (t, n) - k consecutive calls with identical arguments per class. Freshness
    //     must not depend on what is being encrypted.
    let k = (n / 12).max(6);
    let schemes = [SignatureSchemes::Basic, SignatureSchemes::MessageAugmentation, SignatureSchemes::ProofOfPossession];
    let lens = [0usize, 1, 31, 32, 33, 64, 200];
    let mut seq = 80000u32;
    for (si, sch) in schemes.iter().enumerate() {
        for &l in &lens {
            let idl: Vec<u8> = (0..l).map(|i| (i as u8).wrapping_mul(7).wrapping_add(si as u8)).collect();
            for _ in 0..k {
                seq += 1;
                // long identifier, fixed message
                if let Ok(t) = pk.encrypt_time_lock(*sch, &msg, &idl) {
                    push(seq, &format!("PublicKey::encrypt_time_lock({sch:?},id_len={l})/u"), "pk-point", enc_pt(&t.u));
                    push(seq, &format!("PublicKey::encrypt_time_lock({sch:?},id_len={l})/v"), "mask32", t.v.to_vec());
                }
                // long message, fixed identifier
                if let Ok(t) = pk.encrypt_time_lock(*sch, &idl, &id) {
                    push(seq, &format!("PublicKey::encrypt_time_lock({sch:?},msg_len={l})/u"), "pk-point", enc_pt(&t.u));
                }
                let ct = pk.sign_crypt(*sch, &idl);
                push(seq, &format!("PublicKey::sign_crypt({sch:?},msg_len={l})/u"), "pk-point", enc_pt(&ct.u));
                if l >= 16 {
                    push(seq, &format!("PublicKey::sign_crypt({sch:?},msg_len={l})/v"), "mask", ct.v.clone());
                }
            }
        }
        if let Ok(sg) = sk.sign(*sch, &msg) {
            for _ in 0..k {
                seq += 1;
                if let Ok((com, x)) = ProofCommitment::<C>::generate(&msg, sg) {
                    let u = match com {
                        ProofCommitment::Basic(u) | ProofCommitment::MessageAugmentation(u) | ProofCommitment::ProofOfPossession(u) => u,
                    };
                    push(seq, &format!("ProofCommitment::generate({sch:?})/u"), "sig-point", enc_pt(&u));
                    push(seq, &format!("ProofCommitment::generate({sch:?})/x"), "scalar", x.to_be_bytes().to_vec());
                }
                if let Ok(tp) = ProofOfKnowledgeTimestamp::<C>::generate(&msg, sg) {
                    let u = match tp.proof {
                        ProofOfKnowledge::Basic { u, .. } | ProofOfKnowledge::MessageAugmentation { u, .. } | ProofOfKnowledge::ProofOfPossession { u, .. } => u,
                    };
                    push(seq, &format!("ProofOfKnowledgeTimestamp::generate({sch:?})/u"), "sig-point", enc_pt(&u));
                }
            }
        }
    }
    for (pn, pt) in [("1", RS::ONE), ("r-1", -RS::ONE), ("2", RS::ONE + RS::ONE)] {
        let mk = sk_from_rs::<C>(&pt);
        for _ in 0..k {
            seq += 1;
            if let Ok(e) = pk.encrypt_key_el_gamal(&mk) {
                push(seq, &format!("PublicKey::encrypt_key_el_gamal(plaintext={pn})/c1"), "pk-point", enc_pt(&e.c1));
            }
            if let Ok(p) = pk.encrypt_key_el_gamal_with_proof(&mk) {
                push(seq, &format!("PublicKey::encrypt_key_el_gamal_with_proof(plaintext={pn})/c1"), "pk-point", enc_pt(&p.ciphertext.c1));
            }
        }
    }
    for (t, nn) in [(2usize, 2usize), (2, 3), (3, 5), (10, 20)] {
        for _ in 0..k {
            seq += 1;
            if let Ok(shares) = sk.split(t, nn) {
                let mut v = shares[0].0.value_vec();
                v.reverse();
                push(seq, &format!("SecretKey::split({t},{nn})"), "scalar", v);
            }
        }
    }
    // (2) INTERLEAVED sequence: every entry point once per round, all observables
    let n = n.min(16);
    for seq in 1000..1000 + n {
        let k = SecretKey::<C>::new();
        push(seq, "SecretKey::new", "scalar", k.to_be_bytes().to_vec());
        let k2 = BlsSignature::<C>::new_secret_key();
        push(seq, "BlsSignature::new_secret_key", "scalar", k2.to_be_bytes().to_vec());
        let c = ProofCommitmentChallenge::<C>::new();
        push(seq, "ProofCommitmentChallenge::new", "scalar", c.to_be_bytes().to_vec());
        // the other doors to the same operations: the facade, the curve-tagged wrapper, and the
        // variants that take the caller's generator (handed a freshly OS-seeded one each time)
        {
            use rand_core::SeedableRng;
            let c2 = BlsSignature::<C>::new_proof_challenge();
            push(seq, "BlsSignature::new_proof_challenge", "scalar", c2.to_be_bytes().to_vec());
            let e = match SecretKeyEnum::new(C::CURVE) {
                SecretKeyEnum::G1(k) => k.to_be_bytes().to_vec(),
                SecretKeyEnum::G2(k) => k.to_be_bytes().to_vec(),
            };
            push(seq, "SecretKeyEnum::new", "scalar", e);
            let k3 = SecretKey::<C>::random(rand_chacha::ChaCha20Rng::from_entropy());
            push(seq, "SecretKey::random(fresh rng)", "scalar", k3.to_be_bytes().to_vec());
            let k4 = BlsSignature::<C>::random_secret_key(rand_chacha::ChaCha20Rng::from_entropy());
            push(seq, "BlsSignature::random_secret_key(fresh rng)", "scalar", k4.to_be_bytes().to_vec());
            let c3 = ProofCommitmentChallenge::<C>::random(rand_chacha::ChaCha20Rng::from_entropy());
            push(seq, "ProofCommitmentChallenge::random(fresh rng)", "scalar", c3.to_be_bytes().to_vec());
            let c4 = BlsSignature::<C>::random_proof_challenge(rand_chacha::ChaCha20Rng::from_entropy());
            push(seq, "BlsSignature::random_proof_challenge(fresh rng)", "scalar", c4.to_be_bytes().to_vec());
            if let Ok(shares) = sk.split_with_rng(2, 3, rand_chacha::ChaCha20Rng::from_entropy()) {
                let mut v = shares[0].0.value_vec();
                v.reverse();
                push(seq, "SecretKey::split_with_rng(fresh rng)", "scalar", v);
            }
        }
        if let Ok(shares) = sk.split(3, 5) {
            // f(x) = s + a1 x + a2 x^2 ; recover a1, a2 from the shares with ids 1,2,3
            let val = |i: usize| -> Option<(u8, RS)> {
                let sh = &shares[i];
                let v = sh.0.value_vec();
                let a: [u8; 32] = v.as_slice().try_into().ok()?;
                Some((sh.0.identifier(), Option::from(RS::from_le_bytes(&a))?))
            };
            if let (Some(p1), Some(p2), Some(p3)) = (val(0), val(1), val(2)) {
                push(seq, "SecretKey::split", "scalar", p1.1.to_be_bytes().to_vec());
                // coefficients by solving the Vandermonde system through evaluations:
                // g(x) = (f(x) - s)/x = a1 + a2 x  with s known
                let s0 = rs_from_sc::<C>(&sk.0);
                let inv = |x: u8| -> RS { Option::<RS>::from(RS::from(x as u64).invert()).unwrap() };
                let g1 = (p1.1 - s0) * inv(p1.0);
                let g2 = (p2.1 - s0) * inv(p2.0);
                let dx = RS::from(p2.0 as u64) - RS::from(p1.0 as u64);
                let a2 = (g2 - g1) * Option::<RS>::from(dx.invert()).unwrap();
                let a1 = g1 - a2 * RS::from(p1.0 as u64);
                // consistency with the third share, otherwise the recovery is wrong
                let x3 = RS::from(p3.0 as u64);
                if s0 + a1 * x3 + a2 * x3 * x3 == p3.1 {
                    push(seq, "SecretKey::split/a1", "scalar", a1.to_be_bytes().to_vec());
                    push(seq, "SecretKey::split/a2", "scalar", a2.to_be_bytes().to_vec());
                } else {
                    push(seq, "SecretKey::split/recovery-failed", "diagnostic", vec![seq as u8]);
                }
            }
        }
        let ct = pk.sign_crypt(SignatureSchemes::Basic, &msg);
        push(seq, "PublicKey::sign_crypt/u", "pk-point", enc_pt(&ct.u));
        push(seq, "PublicKey::sign_crypt/v", "mask", ct.v.clone());
        if let Ok(t) = pk.encrypt_time_lock(SignatureSchemes::Basic, &msg, &id) {
            push(seq, "PublicKey::encrypt_time_lock/u", "pk-point", enc_pt(&t.u));
            push(seq, "PublicKey::encrypt_time_lock/v", "mask32", t.v.to_vec());
        }
        if let Ok(e) = pk.encrypt_key_el_gamal(&m) {
            push(seq, "PublicKey::encrypt_key_el_gamal/c1", "pk-point", enc_pt(&e.c1));
        }
        if let Ok(p) = pk.encrypt_key_el_gamal_with_proof(&m) {
            push(seq, "PublicKey::encrypt_key_el_gamal_with_proof/c1", "pk-point", enc_pt(&p.ciphertext.c1));
            // r1 = P*blinder_proof - c1*challenge  (public image of the proof's own nonce)
            if let Some(c1) = RPk::<C>::dec(&enc_pt(&p.ciphertext.c1)) {
                let bp = rs_from_sc::<C>(&p.blinder_proof);
                let ch = rs_from_sc::<C>(&p.challenge);
                let r1 = RPk::<C>::gen().mul(&bp).sub(c1.mul(&ch));
                push(seq, "PublicKey::encrypt_key_el_gamal_with_proof/r1", "pk-point", r1.enc());
            }
        }
        // trait-level entry point with a caller-supplied blinder: c1 is then fixed by the caller,
        // but the proof's own nonce (public image r1 = P*blinder_proof - c1*challenge) must be fresh
        {
            use rand_core::SeedableRng;
            let fixed_b = sc_from_rs::<C>(&refimpl::keygen(b"C20 fixed explicit blinder"));
            let rng = rand_chacha::ChaCha20Rng::from_entropy();
            if let Ok((c1, _c2, _mp, bp, ch)) = <C as BlsElGamal>::seal_scalar_with_proof(pk.0, m.0, None, Some(fixed_b), rng) {
                if let Some(c1r) = RPk::<C>::dec(&enc_pt(&c1)) {
                    let r1 = RPk::<C>::gen().mul(&rs_from_sc::<C>(&bp)).sub(c1r.mul(&rs_from_sc::<C>(&ch)));
                    push(seq, "BlsElGamal::seal_scalar_with_proof(explicit blinder)/r1", "pk-point", r1.enc());
                    // c1 is fixed by the caller and therefore NOT pooled; but r1 == c1 means the
                    // nonce is the blinder itself: log it a second time so the checker sees the reuse
                    if r1.enc() == enc_pt(&c1) {
                        push(seq, "BlsElGamal::seal_scalar_with_proof(explicit blinder)/c1=r1", "pk-point", enc_pt(&c1));
                    }
                }
            }
        }
        if let Ok((com, x)) = ProofCommitment::<C>::generate(&msg, sig) {
            let u = match com {
                ProofCommitment::Basic(u) | ProofCommitment::MessageAugmentation(u) | ProofCommitment::ProofOfPossession(u) => u,
            };
            push(seq, "ProofCommitment::generate/u", "sig-point", enc_pt(&u));
            push(seq, "ProofCommitment::generate/x", "scalar", x.to_be_bytes().to_vec());
        }
        if let Ok(tp) = ProofOfKnowledgeTimestamp::<C>::generate(&msg, sig) {
            let u = match tp.proof {
                ProofOfKnowledge::Basic { u, .. } | ProofOfKnowledge::MessageAugmentation { u, .. } | ProofOfKnowledge::ProofOfPossession { u, .. } => u,
            };
            push(seq, "ProofOfKnowledgeTimestamp::generate/u", "sig-point", enc_pt(&u));
        }
    }
}

fn emit(ctx: &mut Ctx) {
    let dir = ctx.work_dir("logs");
    let pid = std::process::id();
    let n = calls_per_thread(ctx.tier);
    let threads = 4u32;
    if ctx.worker == 0 {
        // a fresh emit phase: remove logs of earlier runs that other workers will not overwrite
        // (file names carry the worker index, so each worker replaces its own file)
    }
    let handles: Vec<std::thread::JoinHandle<Vec<Ev>>> = (0..threads)
        .map(|tid| {
            std::thread::spawn(move || {
                let mut out = Vec::new();
                one_thread::<Bls12381G1Impl>(pid, tid, n, &mut out);
                one_thread::<Bls12381G2Impl>(pid, tid, n, &mut out);
                out
            })
        })
        .collect();
    let path = dir.join(format!("worker-{}-{}.jsonl", ctx.build.replace('/', "_"), ctx.worker));
    let mut f = match std::fs::File::create(&path) {
        Ok(f) => std::io::BufWriter::new(f),
        Err(e) => {
            ctx.harness_error(format!("cannot write {path:?}: {e}"));
            return;
        }
    };
    let mut total = 0u64;
    for h in handles {
        match h.join() {
            Ok(evs) => {
                for e in evs {
                    let _ = writeln!(f, "{}", serde_json::to_string(&e).unwrap());
                    total += 1;
                }
            }
            Err(_) => ctx.harness_error("a workload thread panicked".into()),
        }
    }
    let _ = f.flush();
    ctx.evaluations += total;
    ctx.count("events_logged", total);
    ctx.count("processes", 1);
    ctx.count("threads", threads as u64);
}

fn check(ctx: &mut Ctx) {
    // single offline checker
    ctx.require("G1Impl/scalar");
    ctx.require("G1Impl/pk-point");
    ctx.require("G1Impl/sig-point");
    ctx.require("G1Impl/mask");
    ctx.require("G2Impl/scalar");
    ctx.require("G2Impl/pk-point");
    ctx.require("G2Impl/sig-point");
    ctx.require("G2Impl/mask");
    // one offline checker over ALL logs (of every process and every build): worker 0 of the
    // release build
    if ctx.worker != 0 || cfg!(debug_assertions) {
        return;
    }
    let dir = ctx.work_dir("logs");
    let mut files: Vec<std::path::PathBuf> = std::fs::read_dir(&dir).map(|d| d.filter_map(|e| e.ok().map(|e| e.path())).collect()).unwrap_or_default();
    files.sort();
    let mut seen: HashMap<(String, String), Ev> = HashMap::new();
    let mut pids = std::collections::BTreeSet::new();
    let mut threads = std::collections::BTreeSet::new();
    let mut per_entry: std::collections::BTreeMap<String, (u64, std::collections::HashSet<String>)> = Default::default();
    let mut events = 0u64;
    for p in &files {
        let Ok(f) = std::fs::File::open(p) else { continue };
        for line in std::io::BufReader::new(f).lines().map_while(Result::ok) {
            let Ok(e) = serde_json::from_str::<Ev>(&line) else {
                ctx.harness_error(format!("unparseable log line in {p:?}"));
                continue;
            };
            events += 1;
            pids.insert(e.pid);
            threads.insert((e.pid, e.tid));
            let pe = per_entry.entry(e.entry.clone()).or_default();
            pe.0 += 1;
            pe.1.insert(e.value.clone());
            if e.pool.ends_with("diagnostic") {
                ctx.harness_error("coefficient recovery from shares failed".into());
                continue;
            }
            let key = (e.pool.clone(), e.value.clone());
            if let Some(prev) = seen.get(&key) {
                let same_call = prev.pid == e.pid && prev.tid == e.tid && prev.seq == e.seq;
                let kind = if same_call { "within-one-call" } else if prev.pid != e.pid { "across-processes" } else if prev.tid != e.tid { "across-threads" } else { "across-calls" };
                ctx.violation(
                    &format!("C20/reuse/{}/{}+{}", kind, prev.entry.split('/').next().unwrap_or(""), e.entry.split('/').next().unwrap_or("")),
                    json!({"what":"two randomized calls produced the same ephemeral value","pool":e.pool,"value":e.value,"first":{"pid":prev.pid,"tid":prev.tid,"seq":prev.seq,"entry":prev.entry},"second":{"pid":e.pid,"tid":e.tid,"seq":e.seq,"entry":e.entry},"kind":kind}),
                );
            } else {
                seen.insert(key, e.clone());
            }
            ctx.hit(&e.pool.clone(), &[e.pool.as_bytes(), e.value.as_bytes()]);
            if events <= 6 {
                ctx.samples.push(json!({"event": e}));
            }
        }
    }
    if pids.len() < 2 {
        ctx.harness_error(format!("logs of only {} process(es) found - cross-process freshness not observed", pids.len()));
    }
    ctx.count("log_files", files.len() as u64);
    ctx.count("events_checked", events);
    ctx.count("distinct_processes", pids.len() as u64);
    ctx.count("distinct_threads", threads.len() as u64);
    let table: serde_json::Map<String, serde_json::Value> = per_entry.iter().map(|(k, (n, set))| (k.clone(), json!({"events":n,"distinct":set.len()}))).collect();
    ctx.note("per_entry_point", serde_json::Value::Object(table));
    // logs are consumed: remove them so that a later run cannot read stale data
    for p in files {
        let _ = std::fs::remove_file(p);
    }
}
