//! History independence: every operation the properties talk about is a function of its
//! arguments alone. A verdict, signature, plaintext or decoded value that depends on WHAT WAS
//! ASKED BEFORE (a memo keyed on too little, a stale flag, a scratch buffer shared between two
//! code paths) is a violation of the property the operation belongs to, but it only shows in
//! particular call sequences. This module drives such sequences: a cluster of RELATED questions
//! (the honest one and its single-component variants: other scheme label, other group assignment,
//! other key, other message, other ciphertext) with known answers is asked in every ordered pair
//! (a, b) as the sequence a, b, b, a, and every answer is compared with the known one.
//!
//!   a, b      - b directly after a related question (memo keyed without the differing component)
//!   b, b      - the same question twice (stale verdict / first-answer caches)
//!   b, a      - the honest question after a rejected neighbour (negative caches)
//!
//! After the pairs a seeded random walk over the cluster (3x / 30x its size, one step in four
//! repeating the previous question) asks longer histories.
//!
//! The known answers are the monitor's own expectations, which its main pass has already compared
//! with the reference implementation.

use crate::Ctx;
use serde_json::{json, Value};
use std::fmt::Debug;

pub struct Q<'a, T> {
    pub name: String,
    pub expect: T,
    pub ask: Box<dyn Fn() -> T + 'a>,
}

pub fn q<'a, T>(name: impl Into<String>, expect: T, ask: impl Fn() -> T + 'a) -> Q<'a, T> {
    Q { name: name.into(), expect, ask: Box::new(ask) }
}

/// Ask every ordered pair of the cluster as a, b, b, a. `scope` goes into the violation signature
/// (`<prop>/history-dependent/<scope>/<a>/then/<b>`), `cell` is the coverage cell that counts the
/// sequences (distinct by cluster_id and the pair), `ctxd` describes the cluster's inputs for the replay file.
pub fn sandwiches<T: PartialEq + Debug + Clone>(
    ctx: &mut Ctx,
    prop: &str,
    cell: &str,
    scope: &str,
    cluster_id: &[u8],
    ctxd: &dyn Fn() -> Value,
    qs: &[Q<'_, T>],
) {
    let mut pairs = Vec::new();
    for i in 0..qs.len() {
        for j in 0..qs.len() {
            if i != j {
                pairs.push((i, j));
            }
        }
    }
    sandwich_pairs(ctx, prop, cell, scope, cluster_id, ctxd, qs, &pairs);
}

/// All ordered pairs within each family (the part of the question's name before the first '/')
/// plus `cross` seeded random ordered pairs across families.
pub fn family_pairs<T>(qs: &[Q<'_, T>], cross: usize, rng: &mut impl rand_core::RngCore) -> Vec<(usize, usize)> {
    let fam = |i: usize| qs[i].name.split('/').next().unwrap_or("").to_string();
    let mut pairs = Vec::new();
    for i in 0..qs.len() {
        for j in 0..qs.len() {
            if i != j && fam(i) == fam(j) {
                pairs.push((i, j));
            }
        }
    }
    let mut tries = 0;
    let mut added = 0;
    while added < cross && tries < cross * 20 && qs.len() > 1 {
        tries += 1;
        let i = (rng.next_u64() % qs.len() as u64) as usize;
        let j = (rng.next_u64() % qs.len() as u64) as usize;
        if i != j && fam(i) != fam(j) && !pairs.contains(&(i, j)) {
            pairs.push((i, j));
            added += 1;
        }
    }
    pairs
}

pub fn sandwich_pairs<T: PartialEq + Debug + Clone>(
    ctx: &mut Ctx,
    prop: &str,
    cell: &str,
    scope: &str,
    cluster_id: &[u8],
    ctxd: &dyn Fn() -> Value,
    qs: &[Q<'_, T>],
    pairs: &[(usize, usize)],
) {
    {
        for &(i, j) in pairs {
            let (a, b) = (&qs[i], &qs[j]);
            let entry = format!("history sequence {scope}: {} , {} , {} , {}", a.name, b.name, b.name, a.name);
            let got = ctx.guard(&entry, || ctxd(), || [(a.ask)(), (b.ask)(), (b.ask)(), (a.ask)()]);
            let Some(got) = got else { continue };
            let want = [a.expect.clone(), b.expect.clone(), b.expect.clone(), a.expect.clone()];
            let ok = got == want;
            ctx.expect(ok, &format!("{prop}/history-dependent/{scope}/{}/then/{}", a.name, b.name), || {
                json!({"what":"the answers to the sequence a, b, b, a differ from the answers each question has on its own",
                       "a":a.name,"b":b.name,
                       "answers":format!("{:?}", got),"answers_on_their_own":format!("{:?}", want),
                       "cluster":ctxd()})
            });
            ctx.hit(cell, &[scope.as_bytes(), cluster_id, a.name.as_bytes(), b.name.as_bytes(), format!("{:?}", want).as_bytes()]);
            ctx.count("history_questions", 4);
        }
    }
    walk(ctx, prop, cell, scope, cluster_id, ctxd, qs);
}

/// A seeded random walk over the cluster (longer histories than a pair: every answer still has
/// to be the question's own). One step in four repeats the previous question. Length: 3 x the
/// cluster size in the quick tier, 30 x in the thorough tier.
fn walk<T: PartialEq + Debug + Clone>(
    ctx: &mut Ctx,
    prop: &str,
    cell: &str,
    scope: &str,
    cluster_id: &[u8],
    ctxd: &dyn Fn() -> Value,
    qs: &[Q<'_, T>],
) {
    if qs.len() < 2 {
        return;
    }
    use rand_core::RngCore;
    let mut h: u64 = 0xcbf2_9ce4_8422_2325;
    for b in cluster_id.iter().chain(scope.as_bytes()) {
        h = (h ^ *b as u64).wrapping_mul(0x1000_0000_01b3);
    }
    let mut rng = ctx.rng_l(h, "history-walk");
    let steps = qs.len() * ctx.tier.pick(3, 30);
    let mut trail: Vec<usize> = Vec::new();
    let mut prev = 0usize;
    for step in 0..steps {
        let i = if step > 0 && rng.next_u32() % 4 == 0 { prev } else { (rng.next_u64() % qs.len() as u64) as usize };
        prev = i;
        trail.push(i);
        let a = &qs[i];
        let entry = format!("history walk {scope}: step {step}: {}", a.name);
        let Some(got) = ctx.guard(&entry, || ctxd(), || (a.ask)()) else { continue };
        if got != a.expect {
            let last: Vec<&str> = trail.iter().rev().take(5).rev().map(|j| qs[*j].name.as_str()).collect();
            ctx.violation(
                &format!("{prop}/history-dependent/{scope}/walk/{}", a.name),
                json!({"what":"in a random walk over the cluster a question was answered differently from its own answer",
                       "question":a.name,"answer":format!("{:?}", got),"answer_on_its_own":format!("{:?}", a.expect),
                       "preceding_questions":last,"step":step,"cluster":ctxd()}),
            );
        }
        ctx.count("history_walk_steps", 1);
    }
    ctx.hit(cell, &[scope.as_bytes(), cluster_id, b"walk", &(steps as u64).to_le_bytes()]);
}
