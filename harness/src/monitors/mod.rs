use crate::Ctx;

pub mod c01;
pub mod c02;
pub mod c03;
pub mod c04;
pub mod c05;
pub mod c06;
pub mod c07;
pub mod c08;
pub mod c09;
pub mod c10;
pub mod c11;
pub mod c12;
pub mod c13;
pub mod c14;
pub mod c15;
pub mod c16;
pub mod c17;
pub mod c18;
pub mod c19;
pub mod c20;
pub mod history;
pub mod util;

pub fn run(ctx: &mut Ctx) -> Result<(), String> {
    match ctx.prop.as_str() {
        "C01" => c01::run(ctx),
        "C02" => c02::run(ctx),
        "C03" => c03::run(ctx),
        "C04" => c04::run(ctx),
        "C05" => c05::run(ctx),
        "C06" => c06::run(ctx),
        "C07" => c07::run(ctx),
        "C08" => c08::run(ctx),
        "C09" => c09::run(ctx),
        "C10" => c10::run(ctx),
        "C11" => c11::run(ctx),
        "C12" => c12::run(ctx),
        "C13" => c13::run(ctx),
        "C14" => c14::run(ctx),
        "C15" => c15::run(ctx),
        "C16" => c16::run(ctx),
        "C17" => c17::run(ctx),
        "C18" => c18::run(ctx),
        "C19" => c19::run(ctx),
        "C20" => c20::run(ctx),
        other => return Err(format!("unknown property {other}")),
    }
    Ok(())
}

/// The rule text written into evidence (how cases are generated and what makes one
/// distinct / non-trivial).
pub fn rule(prop: &str) -> &'static str {
    match prop {
        "C01" => c01::RULE,
        "C02" => c02::RULE,
        "C03" => c03::RULE,
        "C04" => c04::RULE,
        "C05" => c05::RULE,
        "C06" => c06::RULE,
        "C07" => c07::RULE,
        "C08" => c08::RULE,
        "C09" => c09::RULE,
        "C10" => c10::RULE,
        "C11" => c11::RULE,
        "C12" => c12::RULE,
        "C13" => c13::RULE,
        "C14" => c14::RULE,
        "C15" => c15::RULE,
        "C16" => c16::RULE,
        "C17" => c17::RULE,
        "C18" => c18::RULE,
        "C19" => c19::RULE,
        "C20" => c20::RULE,
        _ => "",
    }
}

pub fn trusted_base() -> Vec<String> {
    vec![
        "bls12_381_plus 0.8.18 (reference arithmetic, hash-to-curve, pairing)".into(),
        "sha2, sha3, merlin (shared with the library; only their *use* is independent)".into(),
        "serde_json, hex, rand_chacha (harness plumbing)".into(),
        "rustc / cargo".into(),
    ]
}

pub fn assumptions(_prop: &str) -> Vec<String> {
    vec![
        "held means: held on the executions observed in this run (cells and counts above); keys and message contents are sampled".into(),
        "the reference oracle's trusted base (coverage.trusted_base) is correct".into(),
        "the harness is built against /repo's current working tree (cargo path dependency)".into(),
    ]
}
