//! helpers shared by the monitors

use crate::refimpl::{Scheme, RG, RS};
use crate::suite::*;
use blsful::vsss_rs::Share;
use blsful::*;
use rand_core::{CryptoRng, RngCore};

/// Build a share container (identifier || payload bytes) without going through any blsful
/// decoder, so that arbitrary payloads can be planted.
pub fn pk_share_raw<C: Suite>(id: u8, payload: &[u8]) -> <C as Pairing>::PublicKeyShare {
    let mut s = <<C as Pairing>::PublicKeyShare as Share>::empty_share_with_capacity(payload.len());
    *s.identifier_mut() = id;
    s.value_mut(payload).expect("payload length");
    s
}

pub fn sig_share_raw<C: Suite>(id: u8, payload: &[u8]) -> <C as Pairing>::SignatureShare {
    let mut s = <<C as Pairing>::SignatureShare as Share>::empty_share_with_capacity(payload.len());
    *s.identifier_mut() = id;
    s.value_mut(payload).expect("payload length");
    s
}

pub fn wrap_sig_share<C: Suite>(
    s: Scheme,
    inner: <C as Pairing>::SignatureShare,
) -> SignatureShare<C> {
    match s {
        Scheme::Basic => SignatureShare::Basic(inner),
        Scheme::Aug => SignatureShare::MessageAugmentation(inner),
        Scheme::Pop => SignatureShare::ProofOfPossession(inner),
    }
}

pub fn wrap_multi<C: Suite>(s: Scheme, p: SigPt<C>) -> MultiSignature<C> {
    match s {
        Scheme::Basic => MultiSignature::Basic(p),
        Scheme::Aug => MultiSignature::MessageAugmentation(p),
        Scheme::Pop => MultiSignature::ProofOfPossession(p),
    }
}

pub fn wrap_agg<C: Suite>(s: Scheme, p: SigPt<C>) -> AggregateSignature<C> {
    match s {
        Scheme::Basic => AggregateSignature::Basic(p),
        Scheme::Aug => AggregateSignature::MessageAugmentation(p),
        Scheme::Pop => AggregateSignature::ProofOfPossession(p),
    }
}

pub fn agg_pt<C: Suite>(a: &AggregateSignature<C>) -> SigPt<C> {
    match a {
        AggregateSignature::Basic(p)
        | AggregateSignature::MessageAugmentation(p)
        | AggregateSignature::ProofOfPossession(p) => *p,
    }
}

pub fn agg_scheme<C: Suite>(a: &AggregateSignature<C>) -> Scheme {
    match a {
        AggregateSignature::Basic(_) => Scheme::Basic,
        AggregateSignature::MessageAugmentation(_) => Scheme::Aug,
        AggregateSignature::ProofOfPossession(_) => Scheme::Pop,
    }
}

pub fn multi_scheme<C: Suite>(a: &MultiSignature<C>) -> Scheme {
    match a {
        MultiSignature::Basic(_) => Scheme::Basic,
        MultiSignature::MessageAugmentation(_) => Scheme::Aug,
        MultiSignature::ProofOfPossession(_) => Scheme::Pop,
    }
}

/// secret share bytes: identifier || little-endian scalar
pub fn sk_share_parts<C: Suite>(s: &SecretKeyShare<C>) -> (u8, RS) {
    let id = s.0.identifier();
    let v = s.0.value_vec();
    let a: [u8; 32] = v.as_slice().try_into().expect("32-byte share value");
    (id, Option::from(RS::from_le_bytes(&a)).expect("canonical share"))
}

pub fn pk_share_parts<C: Suite>(s: &PublicKeyShare<C>) -> (u8, Vec<u8>) {
    (s.0.identifier(), s.0.value_vec())
}

pub fn sig_share_parts<C: Suite>(s: &SignatureShare<C>) -> (u8, Vec<u8>) {
    let r = s.as_raw_value();
    (r.identifier(), r.value_vec())
}

/// library point of the reference point
pub fn lp<C: Suite>(p: RPk<C>) -> PkPt<C> {
    l_pk::<C>(p)
}
pub fn ls<C: Suite>(p: RSig<C>) -> SigPt<C> {
    l_sig::<C>(p)
}

pub fn rpk_of<C: Suite>(pk: &PublicKey<C>) -> RPk<C> {
    RPk::<C>::dec(&pk_bytes(pk)).expect("library public key is a valid point")
}

pub fn rsig_of<C: Suite>(s: &Signature<C>) -> RSig<C> {
    RSig::<C>::dec(&sig_pt_bytes(s)).expect("library signature is a valid point")
}

/// An RNG that hands out a known byte stream whichever of next_u32 / next_u64 /
/// fill_bytes the consumer uses: every word returned has all of its bytes equal to the next
/// stream byte, fill_bytes copies consecutive stream bytes.
pub struct KnownRng {
    pub stream: Vec<u8>,
    pub pos: usize,
}

impl KnownRng {
    pub fn new(stream: Vec<u8>) -> Self {
        KnownRng { stream, pos: 0 }
    }
    fn next(&mut self) -> u8 {
        let b = self.stream[self.pos % self.stream.len()];
        self.pos += 1;
        b
    }
}

impl RngCore for KnownRng {
    fn next_u32(&mut self) -> u32 {
        (self.next() as u32) * 0x0101_0101
    }
    fn next_u64(&mut self) -> u64 {
        (self.next() as u64) * 0x0101_0101_0101_0101
    }
    fn fill_bytes(&mut self, dest: &mut [u8]) {
        for d in dest {
            *d = self.next();
        }
    }
    fn try_fill_bytes(&mut self, dest: &mut [u8]) -> Result<(), rand_core::Error> {
        self.fill_bytes(dest);
        Ok(())
    }
}

impl CryptoRng for KnownRng {}

// ---- equivalent entry points ---------------------------------------------------------------
// `from_signatures` and `TryFrom<&[Signature]>` are two doors to the same accumulation; both are
// called wherever a monitor accumulates, a disagreement is recorded here and turned into a
// violation by `flush_entry_point_disagreements` at the end of the monitor's run. The returned
// value is the PERMISSIVE one (Ok if either door accepts), so that refusal tests see an
// acceptance through either door.
thread_local! {
    static ENTRY_DISAGREE: std::cell::RefCell<Vec<(String, serde_json::Value)>> = std::cell::RefCell::new(Vec::new());
}

fn note_disagreement(what: &str, detail: serde_json::Value) {
    ENTRY_DISAGREE.with(|v| v.borrow_mut().push((what.to_string(), detail)));
}

pub fn flush_entry_point_disagreements(ctx: &mut crate::Ctx, prop: &str) {
    let items: Vec<_> = ENTRY_DISAGREE.with(|v| v.borrow_mut().drain(..).collect());
    for (what, d) in items {
        ctx.violation(&format!("{prop}/entry-points-disagree/{what}"), d);
    }
}

pub fn multi_from<C: Suite>(sigs: &[Signature<C>]) -> BlsResult<MultiSignature<C>> {
    let a = MultiSignature::<C>::from_signatures(sigs);
    let b = <MultiSignature<C> as TryFrom<&[Signature<C>]>>::try_from(sigs);
    let same = match (&a, &b) {
        (Ok(x), Ok(y)) => enc_pt(x.as_raw_value()) == enc_pt(y.as_raw_value()) && multi_scheme(x) == multi_scheme(y),
        (Err(_), Err(_)) => true,
        _ => false,
    };
    if !same {
        note_disagreement(
            &format!("MultiSignature::from_signatures-vs-TryFrom<&[Signature]>/{}", C::NAME),
            serde_json::json!({"n":sigs.len(),"from_signatures_ok":a.is_ok(),"try_from_ok":b.is_ok(),
                "signatures":sigs.iter().take(4).map(|s| hex::encode(Vec::from(s))).collect::<Vec<_>>()}),
        );
    }
    if a.is_ok() { a } else { b }
}

pub fn agg_from<C: Suite>(sigs: &[Signature<C>]) -> BlsResult<AggregateSignature<C>> {
    let a = AggregateSignature::<C>::from_signatures(sigs);
    let b = <AggregateSignature<C> as TryFrom<&[Signature<C>]>>::try_from(sigs);
    let same = match (&a, &b) {
        (Ok(x), Ok(y)) => enc_pt(&agg_pt(x)) == enc_pt(&agg_pt(y)) && agg_scheme(x) == agg_scheme(y),
        (Err(_), Err(_)) => true,
        _ => false,
    };
    if !same {
        note_disagreement(
            &format!("AggregateSignature::from_signatures-vs-TryFrom<&[Signature]>/{}", C::NAME),
            serde_json::json!({"n":sigs.len(),"from_signatures_ok":a.is_ok(),"try_from_ok":b.is_ok(),
                "signatures":sigs.iter().take(4).map(|s| hex::encode(Vec::from(s))).collect::<Vec<_>>()}),
        );
    }
    if a.is_ok() { a } else { b }
}
