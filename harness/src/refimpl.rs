//! The reference oracle R (DESIGN.md 2.2): an independent implementation of everything the
//! properties compare against, written from draft-irtf-cfrg-bls-signature and from the
//! constructions blsful documents. It shares no code with blsful and talks to the library
//! only through bytes. Arithmetic comes from `bls12_381_plus` (pure Rust); the default build of
//! the library uses blst (C/assembly).

use bls12_381_plus::elliptic_curve::hash2curve::ExpandMsgXmd;
use bls12_381_plus::ff::Field;
use bls12_381_plus::group::{Curve, Group};
use bls12_381_plus::{pairing, G1Affine, G1Projective, G2Affine, G2Projective, Gt, Scalar};
use sha2::{Digest, Sha256};
use sha3::digest::{ExtendableOutput, Update, XofReader};

pub type RS = Scalar;

// ------------------------------------------------------------------------------------------
// literals copied from the IETF draft (signature / PoP tags) and recorded from the pinned
// release (own-protocol salts and labels, C18)
// ------------------------------------------------------------------------------------------
pub const KEYGEN_SALT: &[u8] = b"BLS-SIG-KEYGEN-SALT-";
pub const SIGNCRYPT_SALT: &[u8] = b"SIGNCRYPT_BLS12381_XOF:HKDF-SHA2-256_";
pub const TIMELOCK_SALT: &[u8] = b"TIMELOCK_BLS12381_XOF:HKDF-SHA2-256_";
pub const POK_SALT: &[u8] = b"BLS_POK__BLS12381_XOF:HKDF-SHA2-256_";
pub const ELGAMAL_SALT: &[u8] = b"ELGAMAL_BLS12381_XOF:HKDF-SHA2-256_";

#[derive(Copy, Clone, Debug, PartialEq, Eq, Hash, PartialOrd, Ord)]
pub enum Scheme {
    Basic,
    Aug,
    Pop,
}

pub const SCHEMES: [Scheme; 3] = [Scheme::Basic, Scheme::Aug, Scheme::Pop];

impl Scheme {
    pub fn name(self) -> &'static str {
        match self {
            Scheme::Basic => "Basic",
            Scheme::Aug => "MessageAugmentation",
            Scheme::Pop => "ProofOfPossession",
        }
    }
    /// the serde_bare variant index / scheme byte used on the wire by the pinned release
    pub fn wire(self) -> u8 {
        match self {
            Scheme::Basic => 0,
            Scheme::Aug => 1,
            Scheme::Pop => 2,
        }
    }
    pub fn others(self) -> [Scheme; 2] {
        match self {
            Scheme::Basic => [Scheme::Aug, Scheme::Pop],
            Scheme::Aug => [Scheme::Basic, Scheme::Pop],
            Scheme::Pop => [Scheme::Basic, Scheme::Aug],
        }
    }
}

#[derive(Copy, Clone, Debug, PartialEq, Eq)]
pub enum PointClass {
    /// bytes do not decode to any curve point (bad flags, x >= p, x^3+b not a square, length)
    Undecodable,
    /// on the curve but outside the prime-order subgroup
    NotInSubgroup,
    /// the identity of the subgroup
    Identity,
    /// a non-identity element of the prime-order subgroup
    Valid,
}

/// A reference group (G1 or G2).
pub trait RG: Copy + Clone + PartialEq + core::fmt::Debug {
    const LEN: usize;
    const NAME: &'static str;
    fn gen() -> Self;
    fn id() -> Self;
    fn add(self, o: Self) -> Self;
    fn neg(self) -> Self;
    fn mul(self, s: &RS) -> Self;
    fn is_id(self) -> bool;
    fn enc(self) -> Vec<u8>;
    /// full validation: on curve and in the subgroup
    fn dec(b: &[u8]) -> Option<Self>;
    /// decompression only (on curve, flags consistent), no subgroup check
    fn dec_unchecked(b: &[u8]) -> Option<Self>;
    fn on_curve(self) -> bool;
    fn torsion_free(self) -> bool;
    fn hash(msg: &[u8], dst: &[u8]) -> Self;
    fn classify(b: &[u8]) -> PointClass {
        match Self::dec(b) {
            Some(p) if p.is_id() => PointClass::Identity,
            Some(_) => PointClass::Valid,
            None => match Self::dec_unchecked(b) {
                Some(p) if p.on_curve() && !p.torsion_free() => PointClass::NotInSubgroup,
                _ => PointClass::Undecodable,
            },
        }
    }
    fn sub(self, o: Self) -> Self {
        self.add(o.neg())
    }
}

macro_rules! impl_rg {
    ($proj:ty, $aff:ty, $len:expr, $name:expr) => {
        impl RG for $proj {
            const LEN: usize = $len;
            const NAME: &'static str = $name;
            fn gen() -> Self {
                <$proj as Group>::generator()
            }
            fn id() -> Self {
                <$proj as Group>::identity()
            }
            fn add(self, o: Self) -> Self {
                self + o
            }
            fn neg(self) -> Self {
                -self
            }
            fn mul(self, s: &RS) -> Self {
                self * s
            }
            fn is_id(self) -> bool {
                bool::from(Group::is_identity(&self))
            }
            fn enc(self) -> Vec<u8> {
                self.to_affine().to_compressed().to_vec()
            }
            fn dec(b: &[u8]) -> Option<Self> {
                let a: [u8; $len] = b.try_into().ok()?;
                Option::<$aff>::from(<$aff>::from_compressed(&a)).map(<$proj>::from)
            }
            fn dec_unchecked(b: &[u8]) -> Option<Self> {
                let a: [u8; $len] = b.try_into().ok()?;
                Option::<$aff>::from(<$aff>::from_compressed_unchecked(&a)).map(<$proj>::from)
            }
            fn on_curve(self) -> bool {
                bool::from(self.to_affine().is_on_curve())
            }
            fn torsion_free(self) -> bool {
                bool::from(self.to_affine().is_torsion_free())
            }
            fn hash(msg: &[u8], dst: &[u8]) -> Self {
                <$proj>::hash::<ExpandMsgXmd<sha2::Sha256>>(msg, dst)
            }
        }
    };
}

impl_rg!(G1Projective, G1Affine, 48, "G1");
impl_rg!(G2Projective, G2Affine, 96, "G2");

/// A reference ciphersuite family: which group signatures live in, which group keys live in.
pub trait RC: 'static {
    type Sig: RG;
    type Pk: RG;
    /// "G1" for minimal-signature-size, "G2" for minimal-pubkey-size (the group name that
    /// appears in the draft's ciphersuite identifiers)
    const TAG_GROUP: &'static str;
    /// draft tags, literal
    const DST_NUL: &'static [u8];
    const DST_AUG: &'static [u8];
    const DST_POP_SIG: &'static [u8];
    const DST_POP_POP: &'static [u8];
    /// ElGamal message-generator tag as recorded from the pinned release
    const ENC_DST: &'static [u8];
    /// e(sig-group element, key-group element)
    fn e(s: Self::Sig, p: Self::Pk) -> Gt;

    fn dst(s: Scheme) -> &'static [u8] {
        match s {
            Scheme::Basic => Self::DST_NUL,
            Scheme::Aug => Self::DST_AUG,
            Scheme::Pop => Self::DST_POP_SIG,
        }
    }
}

/// minimal-signature-size: signatures in G1, keys in G2
pub struct RefG1;
/// minimal-pubkey-size: signatures in G2, keys in G1
pub struct RefG2;

impl RC for RefG1 {
    type Sig = G1Projective;
    type Pk = G2Projective;
    const TAG_GROUP: &'static str = "G1";
    const DST_NUL: &'static [u8] = b"BLS_SIG_BLS12381G1_XMD:SHA-256_SSWU_RO_NUL_";
    const DST_AUG: &'static [u8] = b"BLS_SIG_BLS12381G1_XMD:SHA-256_SSWU_RO_AUG_";
    const DST_POP_SIG: &'static [u8] = b"BLS_SIG_BLS12381G1_XMD:SHA-256_SSWU_RO_POP_";
    const DST_POP_POP: &'static [u8] = b"BLS_POP_BLS12381G1_XMD:SHA-256_SSWU_RO_POP_";
    const ENC_DST: &'static [u8] = b"BLS_ELGAMAL_BLS12381G2_XMD:SHA-256_SSWU_RO_NUL_";
    fn e(s: G1Projective, p: G2Projective) -> Gt {
        pairing(&s.to_affine(), &p.to_affine())
    }
}

impl RC for RefG2 {
    type Sig = G2Projective;
    type Pk = G1Projective;
    const TAG_GROUP: &'static str = "G2";
    const DST_NUL: &'static [u8] = b"BLS_SIG_BLS12381G2_XMD:SHA-256_SSWU_RO_NUL_";
    const DST_AUG: &'static [u8] = b"BLS_SIG_BLS12381G2_XMD:SHA-256_SSWU_RO_AUG_";
    const DST_POP_SIG: &'static [u8] = b"BLS_SIG_BLS12381G2_XMD:SHA-256_SSWU_RO_POP_";
    const DST_POP_POP: &'static [u8] = b"BLS_POP_BLS12381G2_XMD:SHA-256_SSWU_RO_POP_";
    const ENC_DST: &'static [u8] = b"BLS_ELGAMAL_BLS12381G1_XMD:SHA-256_SSWU_RO_NUL_";
    fn e(s: G2Projective, p: G1Projective) -> Gt {
        pairing(&p.to_affine(), &s.to_affine())
    }
}

// ------------------------------------------------------------------------------------------
// scalars
// ------------------------------------------------------------------------------------------

/// OS2IP(bytes) mod r by Horner evaluation in the scalar field (deliberately not `from_okm`).
pub fn os2ip_mod_r(bytes: &[u8]) -> RS {
    let b256 = RS::from(256u64);
    let mut acc = RS::ZERO;
    for b in bytes {
        acc = acc * b256 + RS::from(*b as u64);
    }
    acc
}

pub fn rs_from_be(b: &[u8]) -> Option<RS> {
    let a: [u8; 32] = b.try_into().ok()?;
    Option::from(RS::from_be_bytes(&a))
}

pub fn rs_be(s: &RS) -> [u8; 32] {
    s.to_be_bytes()
}

pub fn rs_le(s: &RS) -> [u8; 32] {
    s.to_le_bytes()
}

/// r - 1
pub fn rs_minus_one() -> RS {
    -RS::ONE
}

// ------------------------------------------------------------------------------------------
// HMAC-SHA-256 and HKDF written out by hand over sha2::Sha256
// ------------------------------------------------------------------------------------------

pub fn hmac_sha256(key: &[u8], data: &[&[u8]]) -> [u8; 32] {
    let mut k = [0u8; 64];
    if key.len() > 64 {
        k[..32].copy_from_slice(&Sha256::digest(key));
    } else {
        k[..key.len()].copy_from_slice(key);
    }
    let mut ipad = [0x36u8; 64];
    let mut opad = [0x5cu8; 64];
    for i in 0..64 {
        ipad[i] ^= k[i];
        opad[i] ^= k[i];
    }
    let mut inner = Sha256::new();
    Digest::update(&mut inner, ipad);
    for d in data {
        Digest::update(&mut inner, d);
    }
    let ih = inner.finalize();
    let mut outer = Sha256::new();
    Digest::update(&mut outer, opad);
    Digest::update(&mut outer, ih);
    outer.finalize().into()
}

pub fn hkdf_extract(salt: &[u8], ikm: &[&[u8]]) -> [u8; 32] {
    hmac_sha256(salt, ikm)
}

pub fn hkdf_expand(prk: &[u8; 32], info: &[u8], len: usize) -> Vec<u8> {
    let mut out = Vec::new();
    let mut t: Vec<u8> = Vec::new();
    let mut ctr = 1u8;
    while out.len() < len {
        t = hmac_sha256(prk, &[&t, info, &[ctr]]).to_vec();
        out.extend_from_slice(&t);
        ctr += 1;
    }
    out.truncate(len);
    out
}

/// The draft's KeyGen core with `key_info = ""`:
/// PRK = HKDF-Extract(salt, IKM || I2OSP(0,1)); OKM = HKDF-Expand(PRK, I2OSP(48,2), 48);
/// SK = OS2IP(OKM) mod r. (The library uses the same construction, with other salts, as its
/// general hash-to-scalar.)
pub fn hash_to_scalar(ikm: &[u8], salt: &[u8]) -> RS {
    let prk = hkdf_extract(salt, &[ikm, &[0u8]]);
    let okm = hkdf_expand(&prk, &[0u8, 48u8], 48);
    os2ip_mod_r(&okm)
}

pub fn keygen(ikm: &[u8]) -> RS {
    hash_to_scalar(ikm, KEYGEN_SALT)
}

// ------------------------------------------------------------------------------------------
// core BLS operations, re-written from the draft
// ------------------------------------------------------------------------------------------

pub fn sk_to_pk<R: RC>(sk: &RS) -> R::Pk {
    R::Pk::gen().mul(sk)
}

pub fn core_sign<R: RC>(sk: &RS, msg: &[u8], dst: &[u8]) -> R::Sig {
    R::Sig::hash(msg, dst).mul(sk)
}

/// KeyValidate
pub fn key_validate<R: RC>(pk_bytes: &[u8]) -> Option<R::Pk> {
    let pk = R::Pk::dec(pk_bytes)?;
    if pk.is_id() {
        return None;
    }
    Some(pk)
}

/// CoreVerify over byte inputs. Two separate pairings, compared.
pub fn core_verify<R: RC>(pk_bytes: &[u8], sig_bytes: &[u8], msg: &[u8], dst: &[u8]) -> bool {
    let Some(sig) = R::Sig::dec(sig_bytes) else {
        return false;
    };
    let Some(pk) = key_validate::<R>(pk_bytes) else {
        return false;
    };
    core_verify_pts::<R>(pk, sig, msg, dst)
}

pub fn core_verify_pts<R: RC>(pk: R::Pk, sig: R::Sig, msg: &[u8], dst: &[u8]) -> bool {
    if pk.is_id() {
        return false;
    }
    let q = R::Sig::hash(msg, dst);
    R::e(q, pk) == R::e(sig, R::Pk::gen())
}

/// CoreAggregateVerify over byte inputs.
pub fn core_aggregate_verify<R: RC>(
    pairs: &[(Vec<u8>, Vec<u8>)],
    sig_bytes: &[u8],
    dst: &[u8],
) -> bool {
    let Some(sig) = R::Sig::dec(sig_bytes) else {
        return false;
    };
    if pairs.is_empty() {
        return false;
    }
    let mut acc = Gt::IDENTITY;
    for (pkb, msg) in pairs {
        let Some(pk) = key_validate::<R>(pkb) else {
            return false;
        };
        acc += R::e(R::Sig::hash(msg, dst), pk);
    }
    acc == R::e(sig, R::Pk::gen())
}

fn aug_msg(pk_bytes: &[u8], msg: &[u8]) -> Vec<u8> {
    let mut m = pk_bytes.to_vec();
    m.extend_from_slice(msg);
    m
}

pub fn sign<R: RC>(scheme: Scheme, sk: &RS, msg: &[u8]) -> R::Sig {
    match scheme {
        Scheme::Basic => core_sign::<R>(sk, msg, R::DST_NUL),
        Scheme::Aug => {
            let pk = sk_to_pk::<R>(sk).enc();
            core_sign::<R>(sk, &aug_msg(&pk, msg), R::DST_AUG)
        }
        Scheme::Pop => core_sign::<R>(sk, msg, R::DST_POP_SIG),
    }
}

pub fn verify<R: RC>(scheme: Scheme, pk_bytes: &[u8], sig_bytes: &[u8], msg: &[u8]) -> bool {
    match scheme {
        Scheme::Basic => core_verify::<R>(pk_bytes, sig_bytes, msg, R::DST_NUL),
        Scheme::Aug => core_verify::<R>(pk_bytes, sig_bytes, &aug_msg(pk_bytes, msg), R::DST_AUG),
        Scheme::Pop => core_verify::<R>(pk_bytes, sig_bytes, msg, R::DST_POP_SIG),
    }
}

/// AggregateVerify of the three schemes (Basic additionally requires distinct messages).
pub fn aggregate_verify<R: RC>(
    scheme: Scheme,
    pairs: &[(Vec<u8>, Vec<u8>)],
    sig_bytes: &[u8],
) -> bool {
    match scheme {
        Scheme::Basic => {
            for i in 0..pairs.len() {
                for j in 0..i {
                    if pairs[i].1 == pairs[j].1 {
                        return false;
                    }
                }
            }
            core_aggregate_verify::<R>(pairs, sig_bytes, R::DST_NUL)
        }
        Scheme::Aug => {
            let p: Vec<(Vec<u8>, Vec<u8>)> = pairs
                .iter()
                .map(|(pk, m)| (pk.clone(), aug_msg(pk, m)))
                .collect();
            core_aggregate_verify::<R>(&p, sig_bytes, R::DST_AUG)
        }
        Scheme::Pop => core_aggregate_verify::<R>(pairs, sig_bytes, R::DST_POP_SIG),
    }
}

pub fn pop_prove<R: RC>(sk: &RS) -> R::Sig {
    let pk = sk_to_pk::<R>(sk).enc();
    core_sign::<R>(sk, &pk, R::DST_POP_POP)
}

pub fn pop_verify<R: RC>(pk_bytes: &[u8], proof_bytes: &[u8]) -> bool {
    core_verify::<R>(pk_bytes, proof_bytes, pk_bytes, R::DST_POP_POP)
}

pub fn sum<G: RG>(pts: impl IntoIterator<Item = G>) -> G {
    let mut acc = G::id();
    for p in pts {
        acc = acc.add(p);
    }
    acc
}

// ------------------------------------------------------------------------------------------
// Shamir / Lagrange
// ------------------------------------------------------------------------------------------

/// Lagrange coefficients at 0 for the given (distinct, non-zero) identifiers.
pub fn lagrange_at_zero(ids: &[u8]) -> Option<Vec<RS>> {
    let xs: Vec<RS> = ids.iter().map(|i| RS::from(*i as u64)).collect();
    let mut out = Vec::with_capacity(xs.len());
    for i in 0..xs.len() {
        let mut num = RS::ONE;
        let mut den = RS::ONE;
        for j in 0..xs.len() {
            if i == j {
                continue;
            }
            num *= xs[j];
            den *= xs[j] - xs[i];
        }
        let inv: Option<RS> = den.invert().into();
        out.push(num * inv?);
    }
    Some(out)
}

pub fn interpolate_scalars(shares: &[(u8, RS)]) -> Option<RS> {
    let ids: Vec<u8> = shares.iter().map(|s| s.0).collect();
    let l = lagrange_at_zero(&ids)?;
    let mut acc = RS::ZERO;
    for (c, (_, y)) in l.iter().zip(shares) {
        acc += *c * *y;
    }
    Some(acc)
}

pub fn interpolate_points<G: RG>(shares: &[(u8, G)]) -> Option<G> {
    let ids: Vec<u8> = shares.iter().map(|s| s.0).collect();
    let l = lagrange_at_zero(&ids)?;
    let mut acc = G::id();
    for (c, (_, y)) in l.iter().zip(shares) {
        acc = acc.add(y.mul(c));
    }
    Some(acc)
}

/// Evaluate the polynomial interpolating `shares` at an arbitrary x (used by C20 to recover
/// polynomial coefficients and by C08 to predict further shares).
pub fn interpolate_scalars_at(shares: &[(u8, RS)], x: &RS) -> Option<RS> {
    let xs: Vec<RS> = shares.iter().map(|s| RS::from(s.0 as u64)).collect();
    let mut acc = RS::ZERO;
    for i in 0..xs.len() {
        let mut num = RS::ONE;
        let mut den = RS::ONE;
        for j in 0..xs.len() {
            if i == j {
                continue;
            }
            num *= *x - xs[j];
            den *= xs[i] - xs[j];
        }
        let inv: Option<RS> = den.invert().into();
        acc += shares[i].1 * num * inv?;
    }
    Some(acc)
}

// ------------------------------------------------------------------------------------------
// framing: LEB128 length prefix and zero padding to 32 bytes
// ------------------------------------------------------------------------------------------

pub fn leb128(mut x: u128) -> Vec<u8> {
    let mut out = Vec::new();
    while x >= 0x80 {
        out.push((x as u8) | 0x80);
        x >>= 7;
    }
    out.push(x as u8);
    out
}

/// returns (value, bytes used)
pub fn leb128_read(b: &[u8]) -> Option<(u128, usize)> {
    let mut x = 0u128;
    let mut s = 0u32;
    for (i, v) in b.iter().enumerate().take(19) {
        if *v < 0x80 {
            x |= (*v as u128).checked_shl(s).unwrap_or(0);
            return Some((x, i + 1));
        }
        x |= ((*v & 0x7f) as u128).checked_shl(s).unwrap_or(0);
        s += 7;
    }
    None
}

pub fn frame(msg: &[u8]) -> Vec<u8> {
    let mut f = leb128(msg.len() as u128);
    f.extend_from_slice(msg);
    while f.len() < 32 {
        f.push(0);
    }
    f
}

pub fn unframe(p: &[u8]) -> Option<Vec<u8>> {
    let (len, used) = leb128_read(p)?;
    let len = len as usize;
    if len <= p.len() - used {
        Some(p[used..used + len].to_vec())
    } else {
        None
    }
}

pub fn shake128_xor(seed: &[u8], data: &[u8]) -> Vec<u8> {
    let mut h = sha3::Shake128::default();
    h.update(seed);
    let mut r = h.finalize_xof();
    let mut ks = vec![0u8; data.len()];
    r.read(&mut ks);
    ks.iter().zip(data).map(|(a, b)| a ^ b).collect()
}

// ------------------------------------------------------------------------------------------
// signcryption (blsful's construction, after Baek-Zheng / Libert-Quisquater)
// ------------------------------------------------------------------------------------------

pub struct RSignCrypt<R: RC> {
    pub u: R::Pk,
    pub v: Vec<u8>,
    pub w: R::Sig,
}

pub fn signcrypt_seal<R: RC>(pk: R::Pk, msg: &[u8], dst: &[u8], r: &RS) -> RSignCrypt<R> {
    let u = R::Pk::gen().mul(r);
    let v = shake128_xor(&pk.mul(r).enc(), &frame(msg));
    let mut t = u.enc();
    t.extend_from_slice(&v);
    let w = R::Sig::hash(&t, dst).mul(r);
    RSignCrypt { u, v, w }
}

pub fn signcrypt_valid<R: RC>(u: R::Pk, v: &[u8], w: R::Sig, dst: &[u8]) -> bool {
    if u.is_id() || w.is_id() {
        return false;
    }
    let mut t = u.enc();
    t.extend_from_slice(v);
    let h = R::Sig::hash(&t, dst);
    R::e(w, R::Pk::gen()) == R::e(h, u)
}

/// open with the Diffie-Hellman point `ua = u * sk`
pub fn signcrypt_open_with<R: RC>(
    ua: R::Pk,
    u: R::Pk,
    v: &[u8],
    w: R::Sig,
    dst: &[u8],
) -> Option<Vec<u8>> {
    if !signcrypt_valid::<R>(u, v, w, dst) {
        return None;
    }
    unframe(&shake128_xor(&ua.enc(), v))
}

pub fn signcrypt_open<R: RC>(
    sk: &RS,
    u: R::Pk,
    v: &[u8],
    w: R::Sig,
    dst: &[u8],
) -> Option<Vec<u8>> {
    signcrypt_open_with::<R>(u.mul(sk), u, v, w, dst)
}

// ------------------------------------------------------------------------------------------
// time-lock encryption
// ------------------------------------------------------------------------------------------

pub struct RTimeLock<R: RC> {
    pub u: R::Pk,
    pub v: [u8; 32],
    pub w: Vec<u8>,
}

fn xor32(a: &[u8; 32], b: &[u8]) -> [u8; 32] {
    let mut o = [0u8; 32];
    for i in 0..32 {
        o[i] = a[i] ^ b[i];
    }
    o
}

fn timelock_r(alpha_le: &[u8; 32], msg: &[u8]) -> RS {
    let mut inp = alpha_le.to_vec();
    inp.extend_from_slice(&Sha256::digest(msg));
    hash_to_scalar(&inp, TIMELOCK_SALT)
}

/// `id_for_hash` is the byte string that is hashed to the signature group: the identifier
/// itself for Basic / PoP; `pk || id` for message augmentation (what an honest augmentation
/// signature over the identifier is a signature of).
pub fn timelock_seal<R: RC>(
    pk: R::Pk,
    msg: &[u8],
    id_for_hash: &[u8],
    dst: &[u8],
    alpha: &RS,
) -> RTimeLock<R> {
    let alpha_le = rs_le(alpha);
    let r = timelock_r(&alpha_le, msg);
    let k = R::e(R::Sig::hash(id_for_hash, dst), pk.mul(&r));
    let u = R::Pk::gen().mul(&r);
    let v = xor32(&alpha_le, &Sha256::digest(k.to_bytes()));
    let w = shake128_xor(&alpha_le, &frame(msg));
    RTimeLock { u, v, w }
}

pub fn timelock_open<R: RC>(sig: R::Sig, u: R::Pk, v: &[u8; 32], w: &[u8]) -> Option<Vec<u8>> {
    if sig.is_id() || u.is_id() {
        return None;
    }
    let k = R::e(sig, u);
    let alpha = xor32(v, &Sha256::digest(k.to_bytes()));
    let p = shake128_xor(&alpha, w);
    let msg = unframe(&p)?;
    let r = timelock_r(&alpha, &msg);
    if R::Pk::gen().mul(&r) == u {
        Some(msg)
    } else {
        None
    }
}

// ------------------------------------------------------------------------------------------
// signature proof of knowledge
// ------------------------------------------------------------------------------------------

pub fn pok_y<R: RC>(u: R::Sig, t: u64) -> RS {
    let mut b = u.enc();
    b.extend_from_slice(&t.to_le_bytes());
    hash_to_scalar(&b, POK_SALT)
}

/// e(v, g) * e(u + y*H(m), pk) == 1
pub fn pok_verify<R: RC>(u: R::Sig, v: R::Sig, pk: R::Pk, y: &RS, msg: &[u8], dst: &[u8]) -> bool {
    if u.is_id() || v.is_id() || pk.is_id() || bool::from(y.is_zero()) {
        return false;
    }
    let a = R::Sig::hash(msg, dst);
    let lhs = R::e(v, R::Pk::gen()) + R::e(u.add(a.mul(y)), pk);
    lhs == Gt::IDENTITY
}

/// honest prover: u = x*H(m), v = -(x+y)*sig
pub fn pok_prove<R: RC>(sig: R::Sig, msg: &[u8], dst: &[u8], x: &RS, y: &RS) -> (R::Sig, R::Sig) {
    let u = R::Sig::hash(msg, dst).mul(x);
    let v = sig.mul(&(*x + *y)).neg();
    (u, v)
}

// ------------------------------------------------------------------------------------------
// ElGamal in the key group with a Fiat-Shamir proof over a merlin transcript
// ------------------------------------------------------------------------------------------

pub fn elgamal_generator<R: RC>() -> R::Pk {
    R::Pk::hash(&R::Pk::gen().enc(), R::ENC_DST)
}

pub struct RElGamalProof<R: RC> {
    pub c1: R::Pk,
    pub c2: R::Pk,
    pub message_proof: RS,
    pub blinder_proof: RS,
    pub challenge: RS,
}

fn elgamal_challenge<R: RC>(pk: R::Pk, h: R::Pk, c1: R::Pk, c2: R::Pk, r1: R::Pk, r2: R::Pk) -> RS {
    let mut t = merlin::Transcript::new(b"ElGamalProof");
    t.append_message(b"dst", ELGAMAL_SALT);
    t.append_message(b"base point", &R::Pk::gen().enc());
    t.append_message(b"pk", &pk.enc());
    t.append_message(b"generator", &h.enc());
    t.append_message(b"c1", &c1.enc());
    t.append_message(b"c2", &c2.enc());
    t.append_message(b"r1", &r1.enc());
    t.append_message(b"r2", &r2.enc());
    let mut c = [0u8; 64];
    t.challenge_bytes(b"challenge", &mut c);
    RS::from_bytes_wide(&c)
}

pub fn elgamal_seal<R: RC>(pk: R::Pk, m: &RS, b: &RS) -> (R::Pk, R::Pk) {
    let h = elgamal_generator::<R>();
    (R::Pk::gen().mul(b), pk.mul(b).add(h.mul(m)))
}

pub fn elgamal_prove<R: RC>(pk: R::Pk, m: &RS, b: &RS, r: &RS) -> RElGamalProof<R> {
    let h = elgamal_generator::<R>();
    let (c1, c2) = elgamal_seal::<R>(pk, m, b);
    let r1 = R::Pk::gen().mul(r);
    let r2 = pk.mul(r).add(h.mul(b));
    let c = elgamal_challenge::<R>(pk, h, c1, c2, r1, r2);
    RElGamalProof {
        c1,
        c2,
        message_proof: *b + c * *m,
        blinder_proof: *r + c * *b,
        challenge: c,
    }
}

/// returns (accepted, recomputed challenge)
pub fn elgamal_verify<R: RC>(pk: R::Pk, p: &RElGamalProof<R>) -> (bool, RS) {
    let h = elgamal_generator::<R>();
    let nc = -p.challenge;
    let r1 = p.c1.mul(&nc).add(R::Pk::gen().mul(&p.blinder_proof));
    let r2 = p
        .c2
        .mul(&nc)
        .add(h.mul(&p.message_proof))
        .add(pk.mul(&p.blinder_proof));
    let c = elgamal_challenge::<R>(pk, h, p.c1, p.c2, r1, r2);
    let nondeg = !(pk.is_id() || p.c1.is_id() || p.c2.is_id())
        && !bool::from(p.message_proof.is_zero())
        && !bool::from(p.blinder_proof.is_zero())
        && !bool::from(p.challenge.is_zero());
    (nondeg && c == p.challenge, c)
}

pub fn elgamal_decrypt<R: RC>(sk: &RS, c1: R::Pk, c2: R::Pk) -> R::Pk {
    c2.sub(c1.mul(sk))
}

// ------------------------------------------------------------------------------------------
// search for curve points outside the prime-order subgroup (C16)
// ------------------------------------------------------------------------------------------

/// Scan x-coordinates (deterministically from `start`) until `n` compressed encodings are
/// found that decompress to a curve point which is NOT in the prime-order subgroup. Because
/// the cofactors are huge almost every curve point qualifies.
pub fn non_subgroup_points<G: RG>(start: u64, n: usize) -> Vec<Vec<u8>> {
    let mut out = Vec::new();
    let mut ctr = start;
    while out.len() < n {
        let mut b = vec![0u8; G::LEN];
        // derive a pseudo-random x below p: clear the three flag bits, then set compression
        let mut h = Sha256::new();
        Digest::update(&mut h, b"non-subgroup-scan");
        Digest::update(&mut h, ctr.to_le_bytes());
        let d = h.finalize();
        for (i, x) in b.iter_mut().enumerate() {
            *x = d[i % 32] ^ (i as u8).wrapping_mul(31);
        }
        b[0] &= 0x1f; // x < 2^381 (p is a 381-bit number; top value bits kept small)
        b[0] &= 0x0f; // make sure x < p
        b[0] |= 0x80; // compressed
        if ctr & 1 == 1 {
            b[0] |= 0x20; // choose the other y
        }
        ctr += 1;
        if G::classify(&b) == PointClass::NotInSubgroup {
            out.push(b);
        }
    }
    out
}

/// A curve point OUTSIDE the subgroup whose compressed encoding shares its first half
/// (`keep_prefix`) or its last half with the given valid encoding: what a validation memo keyed
/// on part of the bytes would confuse with the valid point.
pub fn non_subgroup_sibling<G: RG>(valid: &[u8], keep_prefix: bool) -> Option<Vec<u8>> {
    if valid.len() != G::LEN {
        return None;
    }
    let half = G::LEN / 2;
    for ctr in 1u32..4096 {
        let mut b = valid.to_vec();
        let c = ctr.to_be_bytes();
        if keep_prefix {
            // change the last four bytes
            let n = b.len();
            for i in 0..4 {
                b[n - 4 + i] ^= c[i];
            }
        } else {
            // change bytes 2..6 (flags and the top value bits stay, so x stays below p)
            for i in 0..4 {
                b[2 + i] ^= c[i];
            }
            debug_assert!(6 <= half);
        }
        if G::classify(&b) == PointClass::NotInSubgroup {
            return Some(b);
        }
    }
    None
}

/// Compressed encodings whose x-coordinate has no point on the curve.
pub fn off_curve_x<G: RG>(start: u64, n: usize) -> Vec<Vec<u8>> {
    let mut out = Vec::new();
    let mut ctr = start;
    while out.len() < n {
        let mut b = vec![0u8; G::LEN];
        let mut h = Sha256::new();
        Digest::update(&mut h, b"off-curve-scan");
        Digest::update(&mut h, ctr.to_le_bytes());
        let d = h.finalize();
        for (i, x) in b.iter_mut().enumerate() {
            *x = d[i % 32] ^ (i as u8).wrapping_mul(17);
        }
        b[0] &= 0x0f;
        b[0] |= 0x80;
        ctr += 1;
        if G::dec_unchecked(&b).is_none() {
            out.push(b);
        }
    }
    out
}

/// Craft a time-lock ciphertext for an arbitrary pairing value `k` (given as bytes). With
/// `k = Gt::IDENTITY` this is the ciphertext an attacker would make so that the *identity*
/// signature "opens" it (C04).
pub fn timelock_seal_with_k<R: RC>(k_bytes: &[u8], msg: &[u8], alpha: &RS) -> RTimeLock<R> {
    let alpha_le = rs_le(alpha);
    let r = timelock_r(&alpha_le, msg);
    let u = R::Pk::gen().mul(&r);
    let v = xor32(&alpha_le, &Sha256::digest(k_bytes));
    let w = shake128_xor(&alpha_le, &frame(msg));
    RTimeLock { u, v, w }
}

pub fn gt_identity_bytes() -> Vec<u8> {
    Gt::IDENTITY.to_bytes().to_vec()
}

/// Signcryption seal of an arbitrary (possibly hostile) inner frame instead of
/// LEB128(len)||msg||padding - used by C17 to put hostile length prefixes *under* the keystream.
pub fn signcrypt_seal_frame<R: RC>(pk: R::Pk, frame: &[u8], dst: &[u8], r: &RS) -> RSignCrypt<R> {
    let u = R::Pk::gen().mul(r);
    let v = shake128_xor(&pk.mul(r).enc(), frame);
    let mut t = u.enc();
    t.extend_from_slice(&v);
    let w = R::Sig::hash(&t, dst).mul(r);
    RSignCrypt { u, v, w }
}

/// Time-lock seal of an arbitrary inner frame (the final r*P == U test will fail for frames
/// that do not parse to `msg_for_r`, but the parser is exercised before that test).
pub fn timelock_seal_frame<R: RC>(
    pk: R::Pk,
    frame: &[u8],
    msg_for_r: &[u8],
    id_for_hash: &[u8],
    dst: &[u8],
    alpha: &RS,
) -> RTimeLock<R> {
    let alpha_le = rs_le(alpha);
    let r = timelock_r(&alpha_le, msg_for_r);
    let k = R::e(R::Sig::hash(id_for_hash, dst), pk.mul(&r));
    let u = R::Pk::gen().mul(&r);
    let v = xor32(&alpha_le, &Sha256::digest(k.to_bytes()));
    let w = shake128_xor(&alpha_le, frame);
    RTimeLock { u, v, w }
}

// ---- ElGamal with a caller-supplied message generator (the trait-level API accepts one) ----

pub fn elgamal_prove_gen<R: RC>(pk: R::Pk, h: R::Pk, m: &RS, b: &RS, r: &RS) -> RElGamalProof<R> {
    let c1 = R::Pk::gen().mul(b);
    let c2 = pk.mul(b).add(h.mul(m));
    let r1 = R::Pk::gen().mul(r);
    let r2 = pk.mul(r).add(h.mul(b));
    let c = elgamal_challenge::<R>(pk, h, c1, c2, r1, r2);
    RElGamalProof { c1, c2, message_proof: *b + c * *m, blinder_proof: *r + c * *b, challenge: c }
}

pub fn elgamal_verify_gen<R: RC>(pk: R::Pk, h: R::Pk, p: &RElGamalProof<R>) -> bool {
    let nc = -p.challenge;
    let r1 = p.c1.mul(&nc).add(R::Pk::gen().mul(&p.blinder_proof));
    let r2 = p.c2.mul(&nc).add(h.mul(&p.message_proof)).add(pk.mul(&p.blinder_proof));
    elgamal_challenge::<R>(pk, h, p.c1, p.c2, r1, r2) == p.challenge
}
