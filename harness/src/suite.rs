//! Glue between the library's two ciphersuite families and the reference oracle's.
//! Values cross this boundary as bytes only.

use crate::refimpl::{RefG1, RefG2, Scheme, RC, RG, RS};
use blsful::inner_types::{Group, GroupEncoding, PrimeField};
use blsful::*;

pub type Sc<C> = <<C as Pairing>::PublicKey as Group>::Scalar;
pub type PkPt<C> = <C as Pairing>::PublicKey;
pub type SigPt<C> = <C as Pairing>::Signature;
pub type RPk<C> = <<C as Suite>::R as RC>::Pk;
pub type RSig<C> = <<C as Suite>::R as RC>::Sig;

pub trait Suite:
    BlsSignatureImpl
    + Copy
    + core::fmt::Debug
    + PartialEq
    + Eq
    + Default
    + serde::Serialize
    + serde::de::DeserializeOwned
    + 'static
{
    type R: RC;
    /// the other group assignment
    type Other: Suite;
    const NAME: &'static str;
    const CURVE: Bls12381;
    /// The same group element in another INTERNAL representation: Jacobian coordinates rescaled
    /// with lambda = -1, i.e. (X, -Y, -Z). It compares equal to `p` and encodes to the same bytes,
    /// but never comes out of a decoder (Z = 1) or of ordinary arithmetic. `None` where the
    /// backend has no raw constructor (pure-Rust build).
    fn pk_other_representation(_p: &PkPt<Self>) -> Option<PkPt<Self>> {
        None
    }
    fn sig_other_representation(_p: &SigPt<Self>) -> Option<SigPt<Self>> {
        None
    }
}

impl Suite for Bls12381G1Impl {
    type R = RefG1;
    type Other = Bls12381G2Impl;
    const NAME: &'static str = "G1Impl";
    const CURVE: Bls12381 = Bls12381::G1;
    #[cfg(feature = "blst")]
    fn pk_other_representation(p: &PkPt<Self>) -> Option<PkPt<Self>> {
        Some(blsful::inner_types::G2Projective::from_raw_unchecked(p.x(), -p.y(), -p.z()))
    }
    #[cfg(feature = "blst")]
    fn sig_other_representation(p: &SigPt<Self>) -> Option<SigPt<Self>> {
        Some(blsful::inner_types::G1Projective::from_raw_unchecked(p.x(), -p.y(), -p.z()))
    }
}

impl Suite for Bls12381G2Impl {
    type R = RefG2;
    type Other = Bls12381G1Impl;
    const NAME: &'static str = "G2Impl";
    const CURVE: Bls12381 = Bls12381::G2;
    #[cfg(feature = "blst")]
    fn pk_other_representation(p: &PkPt<Self>) -> Option<PkPt<Self>> {
        Some(blsful::inner_types::G1Projective::from_raw_unchecked(p.x(), -p.y(), -p.z()))
    }
    #[cfg(feature = "blst")]
    fn sig_other_representation(p: &SigPt<Self>) -> Option<SigPt<Self>> {
        Some(blsful::inner_types::G2Projective::from_raw_unchecked(p.x(), -p.y(), -p.z()))
    }
}

#[macro_export]
macro_rules! for_both {
    ($f:ident, $ctx:expr) => {{
        $f::<blsful::Bls12381G1Impl>($ctx);
        $f::<blsful::Bls12381G2Impl>($ctx);
    }};
}

pub fn lscheme(s: Scheme) -> SignatureSchemes {
    match s {
        Scheme::Basic => SignatureSchemes::Basic,
        Scheme::Aug => SignatureSchemes::MessageAugmentation,
        Scheme::Pop => SignatureSchemes::ProofOfPossession,
    }
}

pub fn rscheme(s: SignatureSchemes) -> Scheme {
    match s {
        SignatureSchemes::Basic => Scheme::Basic,
        SignatureSchemes::MessageAugmentation => Scheme::Aug,
        SignatureSchemes::ProofOfPossession => Scheme::Pop,
    }
}

/// library scalar from canonical little-endian bytes, through the field's own `from_repr`
/// (not through any blsful importer; zero is allowed)
pub fn sc_from_le<C: Suite>(le: &[u8; 32]) -> Option<Sc<C>> {
    let mut repr = <Sc<C> as PrimeField>::Repr::default();
    repr.as_mut().copy_from_slice(le);
    Option::from(<Sc<C> as PrimeField>::from_repr(repr))
}

pub fn sc_from_rs<C: Suite>(s: &RS) -> Sc<C> {
    sc_from_le::<C>(&s.to_le_bytes()).expect("canonical scalar")
}

pub fn rs_from_sc<C: Suite>(s: &Sc<C>) -> RS {
    let repr = s.to_repr();
    let a: [u8; 32] = repr.as_ref().try_into().expect("32-byte repr");
    Option::from(RS::from_le_bytes(&a)).expect("canonical repr")
}

pub fn sk_from_rs<C: Suite>(s: &RS) -> SecretKey<C> {
    SecretKey(sc_from_rs::<C>(s))
}

pub fn sk_be<C: Suite>(sk: &SecretKey<C>) -> [u8; 32] {
    rs_from_sc::<C>(&sk.0).to_be_bytes()
}

pub fn enc_pt<G: GroupEncoding>(p: &G) -> Vec<u8> {
    p.to_bytes().as_ref().to_vec()
}

/// decode with the *library's* point decoder
pub fn dec_pt<G: GroupEncoding>(b: &[u8]) -> Option<G> {
    let mut repr = G::Repr::default();
    if repr.as_ref().len() != b.len() {
        return None;
    }
    repr.as_mut().copy_from_slice(b);
    Option::from(G::from_bytes(&repr))
}

pub fn r_pk<C: Suite>(p: &PkPt<C>) -> Option<RPk<C>> {
    RPk::<C>::dec(&enc_pt(p))
}

pub fn r_sig<C: Suite>(p: &SigPt<C>) -> Option<RSig<C>> {
    RSig::<C>::dec(&enc_pt(p))
}

pub fn l_pk<C: Suite>(p: RPk<C>) -> PkPt<C> {
    dec_pt::<PkPt<C>>(&p.enc()).expect("library rejects a valid subgroup point")
}

pub fn l_sig<C: Suite>(p: RSig<C>) -> SigPt<C> {
    dec_pt::<SigPt<C>>(&p.enc()).expect("library rejects a valid subgroup point")
}

pub fn wrap_sig<C: Suite>(s: Scheme, p: SigPt<C>) -> Signature<C> {
    match s {
        Scheme::Basic => Signature::Basic(p),
        Scheme::Aug => Signature::MessageAugmentation(p),
        Scheme::Pop => Signature::ProofOfPossession(p),
    }
}

pub fn sig_scheme<C: Suite>(s: &Signature<C>) -> Scheme {
    match s {
        Signature::Basic(_) => Scheme::Basic,
        Signature::MessageAugmentation(_) => Scheme::Aug,
        Signature::ProofOfPossession(_) => Scheme::Pop,
    }
}

pub fn sig_pt_bytes<C: Suite>(s: &Signature<C>) -> Vec<u8> {
    enc_pt(s.as_raw_value())
}

pub fn pk_bytes<C: Suite>(p: &PublicKey<C>) -> Vec<u8> {
    enc_pt(&p.0)
}

pub fn pk_id<C: Suite>() -> PkPt<C> {
    <PkPt<C> as Group>::identity()
}

pub fn sig_id<C: Suite>() -> SigPt<C> {
    <SigPt<C> as Group>::identity()
}

pub fn pk_gen<C: Suite>() -> PkPt<C> {
    <PkPt<C> as Group>::generator()
}

pub fn sig_gen<C: Suite>() -> SigPt<C> {
    <SigPt<C> as Group>::generator()
}

pub fn ct_some<T>(o: subtle::CtOption<T>) -> Option<T> {
    Option::from(o)
}
