//! Miri canary (informational, DESIGN.md section 3): a few hundred hostile inputs through the
//! scalar-only decoders of the pure-Rust backend under the undefined-behaviour interpreter.
//! Point decompression and pairings are out of reach for Miri's speed (tens of seconds each).
use blsful::*;

fn main() {
    type C = Bls12381G1Impl;
    let mut calls = 0u32;
    // zero test: all 256 byte values in the last position, and the 0x80 patterns
    for b in 0..=255u8 {
        let mut a = [0u8; 32];
        a[31] = b;
        let _ = SecretKey::<C>::from_be_bytes(&a);
        let _ = ProofCommitmentChallenge::<C>::from_le_bytes(&a);
        calls += 2;
    }
    for pos in 0..32 {
        let mut a = [0u8; 32];
        a[pos] = 0x80;
        let _ = SecretKey::<C>::try_from(&a[..]);
        calls += 1;
    }
    // short inputs
    for input in [&[][..], &[0], &[1], &[2], &[3], &[1; 33], &[2; 34], &[0xff; 33]] {
        let _ = SecretKeyEnum::try_from(input);
        let _ = SecretKeyEnum::from_be_bytes(input);
        let _ = SecretKeyEnum::from_le_bytes(input);
        let _ = SecretKey::<C>::try_from(input);
        let _ = SecretKeyShare::<C>::try_from(input);
        let _ = ProofCommitmentSecret::<C>::try_from(input);
        calls += 6;
    }
    // serde decoders of scalar-only types with malformed documents
    for doc in ["\"\"", "\"zz\"", "\"00\"", "null", "123", "[]", "{}", "\"0000000000000000000000000000000000000000000000000000000000000001\"", "\"g000000000000000000000000000000000000000000000000000000000000001\"", "[\"BLS12381G1\",\"00\"]", "[\"BLS12381G3\",\"00\"]"] {
        let _ = serde_json::from_str::<SecretKey<C>>(doc);
        let _ = serde_json::from_str::<SecretKeyEnum>(doc);
        let _ = serde_json::from_str::<ProofCommitmentChallenge<C>>(doc);
        let _ = serde_json::from_str::<SecretKeyShare<C>>(doc);
        let _ = serde_json::from_str::<SignatureSchemes>(doc);
        let _ = serde_json::from_str::<Bls12381>(doc);
        calls += 6;
    }
    for len in 0..40usize {
        let b = vec![0xa5u8; len];
        let _ = serde_bare::from_slice::<SecretKey<C>>(&b);
        let _ = serde_bare::from_slice::<SecretKeyShare<C>>(&b);
        let _ = serde_bare::from_slice::<SecretKeyEnum>(&b);
        calls += 3;
    }
    // honest scalar codecs round trip
    let sk = SecretKey::<C>::from_hash(b"miri canary");
    let back = SecretKey::<C>::from_be_bytes(&sk.to_be_bytes()).unwrap();
    assert_eq!(back, sk);
    let e = SecretKeyEnum::G1(sk.clone());
    assert_eq!(SecretKeyEnum::try_from(Vec::from(&e).as_slice()).unwrap(), e);
    println!("miri-canary: {calls} hostile calls returned normally");
}
