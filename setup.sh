#!/usr/bin/env bash
# MANIFEST.setup_cmd: offline build of all harness variants against /repo's working tree
set -e
HERE="$(cd "$(dirname "${BASH_SOURCE[0]}")" && pwd)"
export CARGO_NET_OFFLINE=true
cd "$HERE/harness"
cargo build --offline --release --target-dir "$HERE/target-blst"
cargo build --offline --profile checked --target-dir "$HERE/target-blst"
cargo build --offline --release --no-default-features --features rust --target-dir "$HERE/target-rust"
mkdir -p "$HERE/evidence" "$HERE/replay/.work"
echo setup-ok
