#!/usr/bin/env python3
"""Regenerate /verif/MANIFEST.json from the table below (run after adding a monitor)."""
import json, os, subprocess

HERE = os.path.dirname(os.path.dirname(os.path.abspath(__file__)))

# id -> (technique, level text, level note, design ref)
CHECKS = {
    "C01": ("runtime monitor: grid workload + codec interleaving, statement oracle + differential reference verifier",
            "Exploration: every cell of (edge key x length class x scheme x group) is executed against the real library; each honest signature is checked for determinism, acceptance, acceptance by an independent CoreVerify, and survival through all key/public-key/signature encodings (enumerated, not sampled). Held = held on the executions listed in evidence.",
            "Trusted: reference oracle arithmetic (bls12_381_plus), sha2; keys/messages inside a cell are sampled.",
            "DESIGN.md 6 C01"),
    "C02": ("runtime monitor: perturbation catalogue per honest tuple; constructed expectation AND differential reference CoreVerify on every tuple; three verify entry points",
            "Exploration: the full perturbation catalogue of the quantifier (signature, message incl. exhaustive bit flips of a short message, key, scheme label, and algebraically related VALID tuples) is applied to honest tuples in every (scheme x group) cell; each decision of Signature::verify, MultiSignature::verify and PublicKeyShare::verify is compared with the expectation and with an independent two-pairing CoreVerify.",
            "Trusted: reference arithmetic (bls12_381_plus) and its hash-to-curve; keys/messages sampled, catalogue enumerated.",
            "DESIGN.md 6 C02"),
    "C03": ("runtime monitor: byte-level differential against an independent implementation written from the IETF draft (HKDF over hand-written HMAC, Horner OS2IP, pure-Rust curve arithmetic), both directions",
            "Exploration: library outputs (seed-derived keys, public keys, signatures x3 schemes x2 groups, PoPs, aggregates, wire forms) are compared byte for byte with the reference on enumerated seed lengths, edge keys and length classes; the 8 tag constants are compared with the draft literals exhaustively; cross-verification in both directions.",
            "No official test vectors are available offline; conformance rests on agreement of two independent implementations plus literal constants from the draft. Trusted: bls12_381_plus, sha2.",
            "DESIGN.md 6 C03"),
    "C04": ("runtime monitor: entry point x argument position substitution of identity/zero with honest remainder, must-not-succeed oracle with positive twin; algebraically satisfying all-identity forgeries constructed explicitly",
            "Exploration with an enumerated discrete space: every verify/decrypt/finalize entry point x every point/scalar-typed position x 3 schemes x 2 groups is driven with the identity/zero substituted, including the combinations that satisfy the pairing equation trivially (so only the guard can reject) and a time-lock ciphertext crafted to open under the identity signature; the honest twin must succeed or the case is not counted.",
            "Keys/messages sampled; positions, entry points, schemes enumerated.",
            "DESIGN.md 6 C04"),
    "C05": ("runtime monitor: relabel / cross-purpose matrix with positive twins + exhaustive check of the exposed tag constants",
            "Exploration: all 6 ordered scheme pairs x 2 groups x purposes (signature, proof of knowledge, signcryption, time-lock, PoP vs signature over pk bytes) must reject after relabelling while the unrelabelled twin is accepted; the 10 tag constants are checked exhaustively for pairwise distinctness and draft equality.",
            "Keys/messages sampled.",
            "DESIGN.md 6 C05"),
    "C06": ("runtime monitor: list perturbation + permutation workload, expectation AND reference CoreAggregateVerify on every list",
            "Exploration: honest aggregates of n signers (n up to 64 in the thorough tier) are verified in several orders, every single-position perturbation kind is applied at first/middle/last (quick) or every position (thorough), duplicate-message multisets are built with the algebraically valid aggregate, and the from_signatures refusal matrix is enumerated; every decision is cross-checked with an independent CoreAggregateVerify.",
            "Trusted: reference arithmetic. Keys/messages sampled.",
            "DESIGN.md 6 C06"),
    "C07": ("runtime monitor: signer-set perturbation workload, expectation + reference sum/verify",
            "Exploration: multi-signature = reference group sum (bytes); verify under the accumulated key; omission/addition/replacement at every position (n<=16) and other messages rejected; all 3^n scheme assignments for n in {2,3} and Aug-at-every-position refused.",
            "Trusted: reference arithmetic. Keys/messages sampled.",
            "DESIGN.md 6 C07"),
    "C08": ("runtime monitor: exhaustive subset enumeration for small (t,n), sampled corners up to 255; whole-key results + independent Lagrange interpolation as oracles",
            "Exploration with an exhaustive sub-space: every (t,n) with n<=5 (quick) / n<=7 (thorough) and every subset of every size in two orders, for key, public key and Basic/PoP signatures in both groups; >=t must equal the whole-key result byte for byte, <t must not; partial-signature i x j matrix; error catalogue; corners (2,255),(255,255).",
            "Trusted: reference Lagrange/arithmetic. Key/message sampled per split.",
            "DESIGN.md 6 C08"),
    "C09": ("runtime monitor: key-pair matrix + proof perturbation, expectation + reference PopVerify",
            "Exploration: every key of the pool (edge scalars + random) proves, verifies, matches the reference PopProve bytes; every ordered pair of distinct keys must fail; perturbations of the proof point and signatures over the public-key bytes must fail; re-encoded proofs must pass.",
            "Trusted: reference arithmetic.",
            "DESIGN.md 6 C09"),
    "C10": ("runtime monitor: protocol runs with perturbation catalogue; elapsed time controlled through the input (honest proofs constructed with arbitrary timestamps via the public trait functions) + one real-time pair; reference verification equation with independently derived y",
            "Exploration: commit-challenge-response for 3 schemes x 2 groups x 5 challenge kinds, every single-component perturbation rejected, finalize scheme mismatch refused; timestamp variant: accept iff elapsed < timeout with >= 5 s margins on proofs whose timestamp is chosen by the monitor, altered timestamps always Err, no abort for any u64 timestamp/timeout of the grid. MessageAugmentation completeness with the signed message is a recorded known finding (API-level defect); the pk||m workaround path is monitored instead.",
            "Timing verdicts use margins >= 5 s around the harness clock; the band |elapsed - timeout| < 5 s is never asserted. Trusted: reference arithmetic.",
            "DESIGN.md 6 C10"),
    "C11": ("runtime monitor: round trip + exhaustive single-bit tamper of short ciphertext encodings + component tamper catalogue; reference opens library ciphertexts",
            "Exploration with an exhaustive sub-space: all message lengths of the quantifier x 3 schemes x 2 groups round-trip on three decrypt paths and are opened by the independent implementation; every single-bit flip of the whole encoding of a designated short ciphertext per cell, sampled flips elsewhere, and the component catalogue must give is_valid()==0 and decrypt()==None; wrong keys never return the message.",
            "Flips that no longer decode are counted as trivial; keys sampled.",
            "DESIGN.md 6 C11"),
    "C12": ("runtime monitor: subset enumeration + mismatch matrix; reference interpolates u*sk from share bytes and opens",
            "Exploration with an exhaustive sub-space: every (t,n), n<=4 (quick)/5 (thorough), every subset, 3 ciphertext schemes x 2 groups, both decrypt paths; shares verify against own key share + ciphertext and against no other participant / ciphertext / scheme label.",
            "Keys/messages sampled.",
            "DESIGN.md 6 C12"),
    "C13": ("runtime monitor: round trip (whole-key and share-recombined signatures) + region-aware tamper (authenticated prefix vs padding) + wrong-signature catalogue; reference opens library ciphertexts",
            "Exploration with an exhaustive sub-space: lengths x identifiers x 3 schemes x 2 groups open with the honest signature and with signatures recombined from 2-of-3 / 3-of-5 shares; wrong id/key/scheme/identity give None; every bit of u, v, w of a designated short ciphertext is flipped: authenticated region -> None, padding/extension/truncation -> original or None, never another message.",
            "Keys/messages sampled.",
            "DESIGN.md 6 C13"),
    "C14": ("runtime monitor: algebraic checks against the reference (m*H, homomorphism through all 6 Add impls, threshold shares) + proof perturbation catalogue + transcript re-computation by the reference in both directions",
            "Exploration: plaintext scalars from E x random recipient keys x 2 groups; sums of 2,3,16 ciphertexts; every decryption-share subset for n<=4/5; the reference verifier recomputes the merlin transcript and must reproduce the library's challenge, the library must accept reference-built proofs; every single-component perturbation and wrong key rejected.",
            "Trusted: merlin (shared), reference arithmetic.",
            "DESIGN.md 6 C14"),
    "C15": ("runtime monitor: type x codec x value round-trip matrix with equality, re-encoding byte equality, determinism and a measured length table",
            "Exploration over an enumerated matrix: 26 byte-convertible types + 2 enums x 2 groups x every variant x {bytes, 4 container conversions, serde_bare, serde_json, be/le scalar codecs} x honest and edge values (identity points, edge scalars, empty/64 KiB payloads, all 255 share identifiers, extreme timestamps).",
            "Values inside a cell are sampled; types, codecs, variants enumerated.",
            "DESIGN.md 6 C15"),
    "C16": ("runtime monitor: structure-aware point substitution in every encoding + independent point validator (reference decompression + on-curve + subgroup check) on everything a decoder returns; share containers checked at use",
            "Exploration: every decoder-validated point position in every type x 3 codecs x 2 groups is replaced by non-subgroup points, off-curve x, flag variants; every truncation must be rejected, exact-length types reject extensions, zero scalars rejected by byte importers; random byte strings; bad payloads in the four share containers must make every combine/verify entry point fail. Oracle is 'if accepted then valid', so lenient-but-safe decoding is no alarm.",
            "Trusted: bls12_381_plus decompression/subgroup check as the independent validator.",
            "DESIGN.md 6 C16"),
    "C17": ("runtime abort monitor: panic hook + catch_unwind + worker-subprocess isolation with pre-call event log, run on the checked (overflow + debug assertions) and release builds (thorough: + pure-Rust backend, + valgrind memcheck pass); hostile decode / consume / edge-number workload",
            "Exploration: ~270k calls per build in the quick tier - every truncation, exhaustive bit flips of encodings <= 200 bytes, extensions, fills, hostile outer and inner (under the keystream) length prefixes, hostile JSON at every leaf, the zero test exhaustively over the 256 byte values, every decoder-returned value through the in-scope consumers, slice lengths 0..2, timestamp x timeout grid. One defect = one signature (panic location).",
            "Only the functions the property names are consumers (decode, verify, decrypt, share combination, accessors); sign/encrypt with decoded keys are out of scope. A hang is detected by the parent watchdog (inconclusive, not a violation, unless the call log shows a call that never returned).",
            "DESIGN.md 6 C17"),
    "C18": ("runtime monitor: golden corpus produced by the pinned release (with ground truth) replayed on the current tree + live two-way interop with an independent implementation of every own-protocol construction and byte-level wire layouts",
            "Exploration with an exhaustively replayed finite corpus: 122 artefacts (every data type x group x scheme, three encodings each) generated by commit 4bdca94 must decode, re-encode to the recorded bytes and verify/decrypt/recombine to their recorded ground truth; fresh reference-sealed signcryption and time-lock ciphertexts, reference-built proofs of knowledge (interactive and timestamp) and ElGamal proofs must be accepted by the library, and reference-written serde_bare layouts must equal the library's. A salt/tag/label/framing/field-order change made consistently on both sides of the library is therefore visible.",
            "The corpus was generated by harness code linked against the pinned commit in a scratch worktree (header records commit and generator). Two kinds of pinned output were self-inconsistent at generation and are flagged in the corpus (SecretKeyEnum raw bytes, MessageAugmentation time-lock ciphertexts). Trusted: sha2/sha3/merlin shared with the library.",
            "DESIGN.md 6 C18"),
    "C19": ("offline log checker over two builds (blst backend, pure-Rust backend): transcript equality of deterministic operations line by line + cross-consumption of randomized artefacts judged against ground truth",
            "Exploration: both builds emit the same seeded transcript (key derivation, public keys, signatures x3, PoPs, accumulations, challenges, compute_y, hash-to-scalar/point, generators, fixed-blinder ElGamal, signcryption hash, pairing-value bytes, tag constants, encodings) which must be identical; artefact sets produced by several processes of each build are decoded, re-encoded and judged by the other build.",
            "The rust-backend build shares bls12_381_plus with the reference oracle; C19 does not rely on the oracle for transcript equality. Inputs sampled from the seed.",
            "DESIGN.md 6 C19"),
    "C20": ("multi-process, multi-thread event log of the public images of all ephemeral values + offline global-distinctness checker with pooled observables",
            "Exploration: 16 processes x 4 threads call every randomized entry point with identical arguments (1024 calls per entry point and group in the quick tier, 4096 in the thorough tier); ephemeral scalars, key-group points, signature-group points and masks are pooled per group across entry points and must be globally distinct (within a call, across calls, threads and processes). Polynomial coefficients of split are recovered from the shares; the ElGamal proof nonce is recovered as r1 = P*blinder_proof - c1*challenge.",
            "A generator that is weak but never repeats is observationally indistinguishable and not claimed.",
            "DESIGN.md 6 C20"),
}

NOT_YET = {}
HISTORY = {"C%02d" % i for i in range(1, 15)}
EXTRA = {
    "C06": "; both accumulation entry points (from_signatures, TryFrom<&[Signature]>) must agree",
    "C07": "; both accumulation entry points (from_signatures, TryFrom<&[Signature]>) must agree",
    "C01": "; structured message contents, lengths where pk||msg is 256 bytes, keys at magnitude boundaries, SecretKeyEnum carriers",
    "C02": "; identity tuples, structured contents, lengths where pk||msg is 256 bytes",
    "C03": "; aggregation lists with identity / repeated entries through both accumulation doors",
    "C04": "; reference-built ElGamal proofs whose transcript is consistent with an identity component",
    "C05": "; hand-assembled proofs of knowledge for the challenges 0, 1, r-1",
    "C11": "; related wrong keys (-k, k+1, k-1, 2k, 1/k), structured contents, payload lengths around 256-byte hash inputs",
    "C13": "; related-key signatures, varint-like contents, crafted length prefixes sealed by the reference",
    "C14": "; plaintexts at magnitude boundaries, cancelling sums, related wrong keys, large share sets",
    "C16": "; refusal of undecodable substituted bytes; sibling payloads (a non-subgroup point sharing half its encoding with the valid payload decoded just before)",
    "C17": "; cancellation catalogue (well-formed inputs crafted so that a derived point / scalar is the identity / zero)",
    "C18": "; second corpus (46 artefacts: custom ElGamal generator, identifiers 254/255, 40-signer aggregates, long payloads)",
    "C20": "; argument classes (every scheme, identifier / message lengths around 32 and 64 bytes, edge plaintexts, several (t,n))",
}

def main():
    props = [json.loads(l) for l in open(os.path.join(HERE, "properties.jsonl"))]
    checks = []
    na = []
    for p in props:
        pid = p["id"]
        if pid in CHECKS:
            tech, text, note, ref = CHECKS[pid]
            if pid in HISTORY:
                tech += "; history-independence sequences (clusters of related questions with known answers asked in ordered pairs as a,b,b,a)"
                text += " History clusters: the honest question and its single-component variants are asked in ordered pairs (a,b) as a,b,b,a and every answer must equal the answer the question has on its own."
            if pid in EXTRA:
                tech += EXTRA[pid]
            if pid != "C19":
                text += " The workload runs in the plain release build and in the build with debug assertions and overflow checks, in both tiers."
            checks.append({
                "property_id": pid,
                "quick_cmd": f"./check {pid} --tier quick",
                "thorough_cmd": f"./check {pid} --tier thorough",
                "evidence_file": f"/verif/evidence/{pid}.json",
                "replay_cmd_template": f"./check {pid} --replay {{path}}",
                "engine": "blsful-verif-harness",
                "level_claimed": {"category": "exploration", "text": text, "design_ref": ref},
                "level_note": note,
                "technique": tech,
            })
        else:
            na.append({"property_id": pid, "reason": NOT_YET.get(pid, "monitor not built yet (work in progress; see DESIGN.md 6 for the planned runtime monitor) - not a statement that the technique cannot apply")})
    m = {
        "version": 1,
        "setup_cmd": "./setup.sh",
        "hooks": {
            "guard": "blsful_verif",
            "enable": "none needed: every observable is public API; the harness depends on /repo as a cargo path dependency and is rebuilt from the working tree by every check (RUSTFLAGS='--cfg blsful_verif' is reserved but unused)",
            "baseline_off_cmd": "cd /repo && cargo test --workspace --no-fail-fast --offline",
            "source_commits": [],
            "add_only": True,
        },
        "engines": [{
            "name": "blsful-verif-harness",
            "path": "/verif/harness",
            "serves_properties": [c["property_id"] for c in checks],
            "kind_free_text": "cargo crate linking the real library (blst and pure-Rust builds, release and checked profiles); runtime monitors with an independent reference oracle, tamper/metamorphic catalogues, abort monitor (panic hook + subprocess isolation), offline log checkers",
        }],
        "checks": checks,
        "not_applicable": na,
        "notes": "Technique family: runtime monitoring and sanitizers. Verdicts are three-valued: exit 0 held / exit 1 VIOLATION / exit 2 INCONCLUSIVE (build failure, watchdog, empty required cell, harness error). Known findings: /verif/known_findings.json.",
    }
    json.dump(m, open(os.path.join(HERE, "MANIFEST.json"), "w"), indent=1)
    print("MANIFEST.json written:", len(checks), "checks,", len(na), "not_applicable")

if __name__ == "__main__":
    main()
