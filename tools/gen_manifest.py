#!/usr/bin/env python3
"""Regenerate /verif/MANIFEST.json from the table below (run after adding a monitor)."""
import json, os, subprocess

HERE = os.path.dirname(os.path.dirname(os.path.abspath(__file__)))

# id -> (technique, level text, level note, design ref)
CHECKS = {
    "C01": ("runtime monitor: grid workload + codec interleaving, statement oracle + differential reference verifier",
            "Exploration: every cell of (edge key x length class x scheme x group) is executed against the real library; each honest signature is checked for determinism, acceptance, acceptance by an independent CoreVerify, and survival through all key/public-key/signature encodings (enumerated, not sampled). Held = held on the executions listed in evidence.",
            "Trusted: reference oracle arithmetic (bls12_381_plus), sha2; keys/messages inside a cell are sampled.",
            "DESIGN.md 6 C01"),
}

NOT_YET = {}

def main():
    props = [json.loads(l) for l in open(os.path.join(HERE, "properties.jsonl"))]
    checks = []
    na = []
    for p in props:
        pid = p["id"]
        if pid in CHECKS:
            tech, text, note, ref = CHECKS[pid]
            checks.append({
                "property_id": pid,
                "quick_cmd": f"./check {pid} --tier quick",
                "thorough_cmd": f"./check {pid} --tier thorough",
                "evidence_file": f"/verif/evidence/{pid}.json",
                "replay_cmd_template": f"./check {pid} --replay {{path}}",
                "engine": "blsful-verif-harness",
                "level_claimed": {"category": "exploration", "text": text, "design_ref": ref},
                "level_note": note,
                "technique": tech,
            })
        else:
            na.append({"property_id": pid, "reason": NOT_YET.get(pid, "monitor not built yet (work in progress; see DESIGN.md 6 for the planned runtime monitor) - not a statement that the technique cannot apply")})
    m = {
        "version": 1,
        "setup_cmd": "./setup.sh",
        "hooks": {
            "guard": "blsful_verif",
            "enable": "none needed: every observable is public API; the harness depends on /repo as a cargo path dependency and is rebuilt from the working tree by every check (RUSTFLAGS='--cfg blsful_verif' is reserved but unused)",
            "baseline_off_cmd": "cd /repo && cargo test --workspace --no-fail-fast --offline",
            "source_commits": [],
            "add_only": True,
        },
        "engines": [{
            "name": "blsful-verif-harness",
            "path": "/verif/harness",
            "serves_properties": [c["property_id"] for c in checks],
            "kind_free_text": "cargo crate linking the real library (blst and pure-Rust builds, release and checked profiles); runtime monitors with an independent reference oracle, tamper/metamorphic catalogues, abort monitor (panic hook + subprocess isolation), offline log checkers",
        }],
        "checks": checks,
        "not_applicable": na,
        "notes": "Technique family: runtime monitoring and sanitizers. Verdicts are three-valued: exit 0 held / exit 1 VIOLATION / exit 2 INCONCLUSIVE (build failure, watchdog, empty required cell, harness error). Known findings: /verif/known_findings.json.",
    }
    json.dump(m, open(os.path.join(HERE, "MANIFEST.json"), "w"), indent=1)
    print("MANIFEST.json written:", len(checks), "checks,", len(na), "not_applicable")

if __name__ == "__main__":
    main()
