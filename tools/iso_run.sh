#!/usr/bin/env bash
# tools/iso_run.sh <lane-name> <seeded-id> [<seeded-id> ...]
# Bulk matrix runs of seeded changes WITHOUT touching /repo or /verif: a scratch worktree of
# /repo's HEAD plus a snapshot copy of /verif (harness path dependency rewritten to the scratch
# worktree) under /tmp/iso-<lane>. For every seeded change: apply its patch to the scratch
# worktree, run every check's quick command there (no evidence written), revert. The lane
# directory is removed at the end. Output format = tools/try_mutant.sh (tools/seeded_meta.py reads
# it). Final confirmations for the record are still done on /repo itself with tools/try_mutant.sh.
set -u
LANE="$1"; shift
ISO="/tmp/iso-$LANE"
IDS_CHECKS="${ISO_CHECKS:-C01 C02 C03 C04 C05 C06 C07 C08 C09 C10 C11 C12 C13 C14 C15 C16 C17 C18 C19 C20}"
rm -rf "$ISO"; mkdir -p "$ISO"
git -C /repo worktree prune
git -C /repo worktree add --detach "$ISO/repo" HEAD >/dev/null 2>&1 || { echo "cannot create scratch worktree"; exit 2; }
if [ -n "${ISO_REV:-}" ]; then
  # run the machinery as committed at $ISO_REV (e.g. the tag taken before a strengthening round)
  mkdir -p "$ISO/verif"; git -C /verif archive "$ISO_REV" | tar -x -C "$ISO/verif"
else
  rsync -a --exclude 'target-*' --exclude 'replay' --exclude '.git' --exclude 'evidence' /verif/ "$ISO/verif/"
fi
sed -i "s|path = \"/repo\"|path = \"$ISO/repo\"|" "$ISO/verif/harness/Cargo.toml"
mkdir -p "$ISO/verif/evidence" "$ISO/verif/replay"
cleanup() { git -C /repo worktree remove --force "$ISO/repo" >/dev/null 2>&1; rm -rf "$ISO"; }
trap cleanup EXIT
for sid in "$@"; do
  echo "##### seeded $sid"
  patch="/verif/seeded/$sid/patch.diff"
  # same change with its context re-based onto a later fix: commit of /repo (identical +/- lines)
  [ -f "/verif/seeded/$sid/patch.rebased.diff" ] && patch="/verif/seeded/$sid/patch.rebased.diff"
  [ -f "$patch" ] || patch="$sid"   # also accepts a path to a patch file
  git -C "$ISO/repo" apply "$patch" || { echo "patch does not apply"; continue; }
  fired=""
  ids="$IDS_CHECKS"
  if [ "${ISO_OWN_ONLY:-0}" = "1" ]; then
    # only the check of the property the change is aimed at (taken from the id / file name)
    ids="$(basename "$sid" | grep -oiE 'c[0-9]{2}' | head -1 | tr a-z A-Z)"
  fi
  for id in $ids; do
    out="$(VERIF_NO_EVIDENCE=1 "$ISO/verif/check" "$id" --tier "${MUT_TIER:-quick}" 2>&1)"; rc=$?
    # a check that gave up on hung workers must not leave them spinning
    pkill -9 -f "$ISO/verif/target-" >/dev/null 2>&1 || true
    nv=$(printf '%s\n' "$out" | grep -c '^VIOLATION')
    if [ $rc -eq 1 ]; then
      fired="$fired $id"
      echo "[$id] FIRED rc=$rc violations=$nv"
      printf '%s\n' "$out" | grep '^VIOLATION' | sed 's/replay=[^ ]* //' | head -6
    elif [ $rc -eq 0 ]; then
      echo "[$id] silent"
    else
      echo "[$id] rc=$rc inconclusive=1"
      printf '%s\n' "$out" | grep -E '^INCONCLUSIVE|^error' | head -3
    fi
  done
  echo "FIRED:$fired"
  git -C "$ISO/repo" checkout -- . ; git -C "$ISO/repo" clean -fdq
done
