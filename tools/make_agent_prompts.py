#!/usr/bin/env python3
"""tools/make_agent_prompts.py <round> <outdir>  - write the prompts given to the independent
sub-agents of a seeded round (>= 2): property text only, a private worktree /tmp/mut<round>-<ID>,
and one line per earlier change for the same property ("do something different")."""
import json, os, sys
HERE = os.path.dirname(os.path.dirname(os.path.abspath(__file__)))
sys.path.insert(0, os.path.join(HERE, "tools"))
from seeded_table import SUMMARY
rnd = int(sys.argv[1]); out = sys.argv[2]
os.makedirs(out, exist_ok=True)
NUM = {1: "One", 2: "Two", 3: "Three", 4: "Four", 5: "Five", 6: "Six", 7: "Seven"}
for line in open(os.path.join(HERE, "properties.jsonl")):
    p = json.loads(line)
    pid = p["id"]; low = pid.lower(); wt = f"/tmp/mut{rnd}-{pid}"
    earlier = [SUMMARY[k] for k in [pid] + [f"{pid}-r{i}" for i in range(2, rnd)] if k in SUMMARY]
    taken = "; ".join(f"({i+1}) {t}" for i, t in enumerate(earlier))
    files = ", ".join(p["anchors"]["files"])
    txt = f"""You are helping to test a verification framework for the Rust crate `blsful` (a BLS12-381 signature library: basic/augmentation/proof-of-possession schemes, aggregation, multi-signatures, threshold shares, signcryption, time-lock encryption, ElGamal, proofs of knowledge). Your job is to write a *seeded defect*: a realistic change to the library that BREAKS the property below while the crate still COMPILES and its EXISTING TEST SUITE STILL PASSES.

## Your workspace
A private git worktree of the repository is at `{wt}` (a detached checkout). Work ONLY inside `{wt}`. NEVER use `git stash` (it is shared with other worktrees). Do not read or write anything under `/verif` or `/repo`, and do not look at other `/tmp/mut*` or `/tmp/iso*` directories. The machine is offline: always run cargo with `--offline` (e.g. `cd {wt} && cargo test --offline`). The first build takes a few minutes.

## The property your change must break
ID: {pid}
Title: {p['title']}
Statement: {p['statement']}
It is quantified: {p['quantifier']['text']}
(Code areas where the behaviour lives: {files}.)

## Already taken - do something DIFFERENT
{NUM[len(earlier)]} earlier seeded defects for this property were: {taken}. Yours must differ from ALL of them in kind and in location. Re-read every sentence of the statement and of the quantifier, list the clauses, and pick a clause (or an interaction between two features, or an input class) that none of them touches. Think about: particular values (edge scalars, particular byte patterns, particular lengths), particular orders or positions, particular sequences of calls (state carried between calls - but note several earlier ones already were one-entry memos with an incomplete key, so a memo of that shape does not count as different), one of the two group assignments, one codec, one scheme, one entry point among several equivalent ones, debug vs release builds, interactions between two otherwise correct features. Subtle is better than blunt: the narrowest trigger you can still demonstrate, dressed as a plausible refactoring slip, copy-paste slip, off-by-one or over-eager optimisation.

## What to produce
1. A change to the library sources under `{wt}/src` (not to tests, not to Cargo.toml, no new dependencies) such that:
   - `cargo build --offline` succeeds and `cargo test --offline` still passes ALL existing tests (37 tests) - run it and confirm;
   - the property above is violated;
   - the violation needs something SPECIFIC to manifest - e.g. one particular scheme or group variant (G2 vs G1), a particular message length or length boundary, a particular position in a list, a particular share count/threshold, a multi-step sequence of operations, an unusual or edge input, a particular codec (bytes vs serde_bare vs serde_json), or two cooperating sites that each look fine alone. Do NOT make a change that ordinary use (or the existing tests) would expose at once. Do NOT make a change whose trigger has a negligible probability for every input a tester could construct without brute-force search (it must be demonstrable with inputs one can write down or compute directly). Prefer changes that look like plausible refactoring slips or over-eager optimisations.
   Keep the change small (a few lines to a few dozen lines).
2. A demonstration: a new integration test file `{wt}/tests/demo_{low}.rs` (you may `use blsful::*;` and dev-dependencies already present such as `serde_json`, `rand_core`; look at the existing files in `tests/` for idioms) that FAILS with your change applied and PASSES on the original code. Verify both: run it with your change (`cargo test --offline --test demo_{low}` must fail); then save and revert the src change WITHOUT git stash: `git -C {wt} diff -- src > {wt}/patch.diff && git -C {wt} apply -R {wt}/patch.diff`, run the demo again (must pass), then re-apply with `git -C {wt} apply {wt}/patch.diff`.
3. Write the source change alone (without the demo test) as a unified diff to `{wt}/patch.diff` using `git -C {wt} diff -- src > {wt}/patch.diff`.
4. Write `{wt}/NOTES.md`: what you changed, why it breaks the property, exactly what is needed for it to manifest, and the commands you ran with their outcomes (existing tests pass with the change; demo fails with / passes without).

Leave the worktree with your src change applied, `patch.diff`, the demo test and NOTES.md in place. In your final message report: the one-paragraph description of the change, what it needs in order to manifest, and confirmation of the three test outcomes.
"""
    open(os.path.join(out, f"{pid}-r{rnd}.txt"), "w").write(txt)
print("written", out)
