#!/usr/bin/env python3
"""Markdown table of the own mutant battery from validation/own_mutants.log (ISO_OWN_ONLY=1 lane)."""
import re, os
HERE = os.path.dirname(os.path.dirname(os.path.abspath(__file__)))
NOTE = {
 "m18a-c18-signcrypt-salt": "equivalent mutant: the salt only keys the derivation of the ephemeral scalar from fresh randomness, nothing observable changes (ciphertexts stay valid and interoperable)",
}
rows = []; cur = None
for line in open(os.path.join(HERE, "validation", "own_mutants.log"), errors="replace"):
    m = re.match(r"##### seeded .*/(m[0-9a-z]+-c(\d\d)-(.*))\.patch", line)
    if m:
        cur = {"id": m.group(1), "prop": "C" + m.group(2), "what": m.group(3).replace("-", " "), "res": "?", "sigs": []}
        rows.append(cur); continue
    if cur is None: continue
    m = re.match(r"\[(C\d+)\] (FIRED|silent|rc=\d+)", line)
    if m: cur["res"] = {"FIRED": "fired", "silent": "**silent**"}.get(m.group(2), "inconclusive")
    m = re.match(r"VIOLATION property=C\d+ signature=(\S+)", line)
    if m and len(cur["sigs"]) < 1: cur["sigs"].append(m.group(1))
print("| mutant | aimed at | what it does | own check (quick tier) | first signature / note |")
print("|---|---|---|---|---|")
for r in rows:
    print("| %s | %s | %s | %s | %s |" % (r["id"].split("-")[0], r["prop"], r["what"], r["res"], NOTE.get(r["id"], ("`%s`" % r["sigs"][0]) if r["sigs"] else "")))
print()
print("%d mutants, own check fired on %d." % (len(rows), sum(r["res"] == "fired" for r in rows)))
