#!/usr/bin/env bash
# post step of ./check C16: valgrind memcheck pass in the thorough tier
HERE="$(cd "$(dirname "${BASH_SOURCE[0]}")/.." && pwd)"
[ "$1" = thorough ] || exit 0
exec "$HERE/tools/valgrind_pass.sh" C16 "$2" 16 32
