#!/usr/bin/env bash
# post step of ./check C17 (thorough tier only): valgrind memcheck pass over shards of the hostile
# workload (blst backend, sees across the FFI) and the Miri canary (pure-Rust backend, scalar-only
# decoders). Miri is informational unless it reports undefined behaviour inside /repo/src.
HERE="$(cd "$(dirname "${BASH_SOURCE[0]}")/.." && pwd)"
[ "$1" = thorough ] || exit 0
"$HERE/tools/valgrind_pass.sh" C17 "$2" 16 96 || exit $?
out="$HERE/replay/.work/miri-canary.log"; mkdir -p "$HERE/replay/.work"
( cd "$HERE/miri-canary" && cp /repo/Cargo.lock Cargo.lock 2>/dev/null; timeout 1500 cargo +nightly miri run --offline --target-dir "$HERE/target-miri" ) >"$out" 2>&1
rc=$?
python3 - "$out" "$rc" "$HERE" <<'PY'
import json, os, sys
out, rc, here = sys.argv[1], int(sys.argv[2]), sys.argv[3]
t = open(out, errors="replace").read()
ub = "Undefined Behavior" in t
inrepo = ub and "/repo/src" in t
last = [l for l in t.strip().splitlines() if l.strip()][-1:] or [""]
res = {"tool": "cargo +nightly miri run (pure-Rust backend, scalar-only decoders)", "exit": rc, "undefined_behaviour_reported": ub, "last_line": last[0][:300]}
print("miri-canary:", json.dumps(res))
ev = os.path.join(here, "evidence", "C17.json")
if os.path.exists(ev) and os.environ.get("VERIF_NO_EVIDENCE") != "1":
    d = json.load(open(ev)); d["coverage"]["miri_canary"] = res; json.dump(d, open(ev, "w"), indent=1)
if inrepo:
    rp = os.path.join(here, "replay", "C17-miri.json")
    json.dump({"property": "C17", "signature": "miri/undefined-behaviour-in-repo", "detail": t[-4000:]}, open(rp, "w"), indent=1)
    print(f"VIOLATION property=C17 replay={rp} signature=miri/undefined-behaviour-in-repo")
    sys.exit(1)
sys.exit(0)
PY
