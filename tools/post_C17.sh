#!/usr/bin/env bash
# post step of ./check C17: valgrind memcheck pass in the thorough tier
HERE="$(cd "$(dirname "${BASH_SOURCE[0]}")/.." && pwd)"
[ "$1" = thorough ] || exit 0
exec "$HERE/tools/valgrind_pass.sh" C17 "$2" 16 96
