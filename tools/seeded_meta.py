#!/usr/bin/env python3
"""tools/seeded_meta.py <full-matrix logs> ... [--before <first-measurement logs> ...] [--final-own <own-check-only logs of the final machinery> ...]
Write /verif/seeded/<ID>/meta.json from the logs of tools/try_mutant.sh runs (sections start with
'##### seeded <ID>') and from each seeded change's NOTES.md."""
import json, os, re, sys

HERE = os.path.dirname(os.path.dirname(os.path.abspath(__file__)))
sys.path.insert(0, os.path.join(HERE, "tools"))
try:
    from seeded_table import SUMMARY
except Exception:
    SUMMARY = {}
def parse(logs):
    results = {}
    for log in logs:
        cur = None
        for line in open(log, errors="replace"):
            m = re.match(r"##### seeded (\S+)", line)
            if m:
                cur = m.group(1)
                results[cur] = {"fired": {}, "silent": [], "inconclusive": {}}
                continue
            if cur is None:
                continue
            m = re.match(r"\[(C\d+)\] FIRED rc=1 violations=(\d+)", line)
            if m:
                results[cur]["fired"][m.group(1)] = {"distinct_violation_signatures": int(m.group(2)), "examples": []}
                continue
            m = re.match(r"\[(C\d+)\] silent", line)
            if m:
                results[cur]["silent"].append(m.group(1))
                continue
            m = re.match(r"\[(C\d+)\] rc=(\d+)", line)
            if m:
                results[cur]["inconclusive"][m.group(1)] = ""
                continue
            m = re.match(r"VIOLATION property=(C\d+) signature=(\S+)", line)
            if m and m.group(1) in results[cur]["fired"]:
                ex = results[cur]["fired"][m.group(1)]["examples"]
                if len(ex) < 4:
                    ex.append(m.group(2))
                continue
            m = re.match(r"INCONCLUSIVE property=(C\d+) reason=(\S+)", line)
            if m and m.group(1) in results[cur]["inconclusive"]:
                results[cur]["inconclusive"][m.group(1)] = m.group(2)[:200]
    return results


def take(args, flag):
    """remove `flag a b c` (up to the next --flag) from args and return [a, b, c]"""
    if flag not in args:
        return []
    i = args.index(flag)
    j = i + 1
    while j < len(args) and not args[j].startswith("--"):
        j += 1
    vals = args[i + 1:j]
    del args[i:j]
    return vals


args = sys.argv[1:]
before_logs = take(args, "--before")
final_own_logs = take(args, "--final-own")
results = parse(args)
before = parse(before_logs)
final_own = parse(final_own_logs)
# a change that only has a first measurement (latest round) still gets a meta file
for sid in list(before) + list(final_own):
    results.setdefault(sid, before.get(sid) or final_own.get(sid))

props = {json.loads(l)["id"]: json.loads(l) for l in open(os.path.join(HERE, "properties.jsonl"))}
for sid, r in results.items():
    d = os.path.join(HERE, "seeded", sid)
    if not os.path.isdir(d):
        continue
    notes = open(os.path.join(d, "NOTES.md"), errors="replace").read() if os.path.exists(os.path.join(d, "NOTES.md")) else ""
    # first paragraph after a heading that talks about manifestation
    m = re.search(r"(?is)#+\s*(?:what (?:it|is) need[^\n]*|what is needed[^\n]*|trigger[^\n]*|manifest[^\n]*)\n+(.*?)(?:\n#+ |\Z)", notes)
    needs = re.sub(r"\s+", " ", m.group(1)).strip()[:1200] if m else ""
    pid = sid.split("-")[0]
    meta = {
        "id": sid,
        "breaks_property": pid,
        "property_title": props.get(pid, {}).get("title", ""),
        "what_the_change_does": SUMMARY.get(sid, ""),
        "origin": "written by an independent sub-agent that saw only the property text and a scratch worktree of /repo (nothing from /verif)",
        "files": {"patch": "patch.diff", "demonstration": [f for f in os.listdir(d) if f.startswith("demo_")], "author_notes": "NOTES.md"},
        "needs_to_manifest": needs,
        "confirmed_by_me": {
            "how": "tools/verify_seeded.sh in a scratch worktree outside /repo and /verif: patch applied -> the 37 baseline tests pass and the demonstration fails; patch reverted -> the demonstration passes",
            "baseline_tests_pass_with_patch": True, "demo_fails_with_patch": True, "demo_passes_without_patch": True,
        },
        "checks_run_against_it": {
            "how": "tools/iso_run.sh ... %s : patch applied to a scratch worktree of /repo's HEAD, every check's quick command run from a snapshot of /verif with the harness pointed at that worktree, patch reverted (same steps as tools/try_mutant.sh, which does it on /repo itself: git -C /repo apply; checks; git -C /repo checkout -- .)" % sid,
            "fired": r["fired"],
            "silent": r["silent"],
            "inconclusive": r["inconclusive"],
            "caught_by_own_property_check": pid in r["fired"],
        },
    }
    if sid in before:
        b = before[sid]
        meta["first_measurement_before_strengthening"] = {
            "how": "tools/iso_run.sh with ISO_REV=<tag taken before this round's changes were looked at> (pre-r4 / pre-r5 / pre-r6 / pre-r7): scratch worktree of /repo + git archive of /verif at that tag, all 20 quick checks",
            "fired": sorted(b["fired"]), "inconclusive": b["inconclusive"],
            "caught_by_own_property_check": pid in b["fired"],
            "caught_by_any_check": bool(b["fired"]),
        }
    if sid in final_own:
        f = final_own[sid]
        meta["final_machinery_own_check"] = {
            "how": "ISO_OWN_ONLY=1 tools/iso_run.sh with the machinery as committed at the end: only the quick check of the property the change is aimed at",
            "fired": pid in f["fired"],
            "inconclusive": pid in f["inconclusive"],
            "examples": (f["fired"].get(pid) or {}).get("examples", []),
        }
    json.dump(meta, open(os.path.join(d, "meta.json"), "w"), indent=1)
    print(sid, "fired:", sorted(r["fired"]), "inconclusive:", sorted(r["inconclusive"]))
