#!/usr/bin/env python3
"""Print the markdown table of DESIGN.md section 12.3 from /verif/seeded/*/meta.json."""
import json, os

HERE = os.path.dirname(os.path.dirname(os.path.abspath(__file__)))
SUMMARY = {
 "C01": "word-at-a-time rewrite of the all-zero test: raw byte importers reject secret keys < 2^56",
 "C02": "augmentation messages longer than 4096 bytes are truncated before hashing (sign and verify)",
 "C03": "KeyGen seeds longer than 64 bytes are truncated",
 "C04": "aggregate verify merges keys per repeated message before the identity check (PoP, identity key with a repeated message)",
 "C05": "pop_prove / pop_verify reuse the PoP-scheme signature tag",
 "C06": "Basic duplicate-message detector keyed by message length, last index only ([A,B,A] with |A|=|B|)",
 "C07": "chunks_exact(2) neighbour comparison lets [PoP,PoP,Basic] accumulate",
 "C08": "chunks_exact(2) neighbour comparison lets [Basic,Basic,PoP] share sets recombine",
 "C09": "sentinel in pop_verify misclassifies the generator public key (sk = 1)",
 "C10": "age of a timestamp proof read with subsec_millis()",
 "C11": "wrong canonical-length check in the signcryption parser: honest lengths 64..127, 8192..16383 do not decrypt",
 "C12": "SignCryptDecryptionKey::decrypt uses POP_DST for the ProofOfPossession arm",
 "C13": "time-lock hashes zero-padded short messages: a length-prefix flip opens to M||00..",
 "C14": "AddAssign<&ElGamalCiphertext> adds rhs.c1 into c2",
 "C15": "TimeCryptCiphertext::try_from assumes a one-byte length prefix (payload >= 128 rejected)",
 "C16": "MultiPublicKey::try_from decodes without the subgroup check",
 "C17": "overflowing `overhead + len` in the signcryption parser (crafted inner length 2^64-1)",
 "C18": "compute_y hashes a fixed 104-byte buffer: G1 timestamp challenges change on both sides",
 "C19": "ElGamal proof challenge through Field::random: differs between the backends",
 "C20": "thread-local seed batch with an off-by-one refill: call 65 repeats call 1",
 "C01-r2": "thread-local public-key memo shared by both group assignments in the augmentation signer",
 "C02-r2": "one-entry 'last verified' cache in core_verify whose key ignores the tag bytes (Basic<->PoP relabel after an honest verify)",
 "C03-r2": "augmentation skips the pk prefix when the message already starts with the pk",
 "C04-r2": "De-Morgan slip in the time-lock guard: identity signature opens a ciphertext crafted for K = 1",
 "C05-r2": "De-Morgan slip: SignCryptDecryptionKey::decrypt ignores ciphertext validity (relabelled ciphertext decrypts)",
 "C06-r2": "XOR fold of scheme tags lets [Basic,PoP,PoP] aggregate",
 "C07-r2": "MultiPublicKey accumulation takes only the first 64 keys",
 "C08-r2": "u128 identifier bitmap: identifiers 128 apart look like duplicates",
 "C09-r2": "ProofOfPossession::verify falls back to a PoP-scheme signature over the pk bytes",
 "C10-r2": "top byte of the challenge masked in finalize and verify",
 "C11-r2": "chunked compute_w leaves the tail of payloads > 1024 bytes unauthenticated",
 "C12-r2": "decrypt_with_shares silently requires ascending identifiers",
 "C13-r2": "top bit of the recovered alpha masked: bit 255 of v is not authenticated",
 "C14-r2": "challenge comparison looks at the last byte only (1 in ~116 tampered proofs accepted)",
 "C15-r2": "SecretKeyEnum::from_le_bytes returns the G1 variant for G2 input",
 "C16-r2": "JSON hex validator lets one surplus hex digit through",
 "C17-r2": "char-boundary slice panic in the JSON hex decoder of the share types",
 "C18-r2": "signcryption length prefix written MSB-first (differs for len >= 128)",
 "C19-r2": "chunked multi-pairing accumulates into Gt::default() (zero, not identity, in blst) for > 32 pairs",
 "C20-r2": "process-wide signcryption nonce generator re-keyed with a zeroized key after 1024 draws",
 "C01-r3": "PublicKey::try_from strips a trailing newline: keys whose encoding ends in 0x0a are rejected",
 "C02-r3": "pairing-term folding adds instead of subtracts for negated G2 points: honest signatures under pk = generator rejected (G1Impl)",
 "C03-r3": "G1Impl POP_DST says G2",
 "C04-r3": "encrypt_key_el_gamal no longer refuses the identity public key",
 "C05-r3": "time-lock scheme equality test wrong for the Basic/ProofOfPossession pair",
 "C06-r3": "run folding in core_aggregate_verify drops a repeated (key, message) pair",
 "C07-r3": "doubling shortcut in signature summation wrong for a repeated part after a prefix",
 "C08-r3": "SecretKey::combine rejects exactly 255 shares",
 "C09-r3": "stale 'verified' flag in a core_verify cache: a failed tuple is accepted when asked again",
 "C10-r3": "G2Impl compute_y truncates the transcript: the timestamp is not bound",
 "C11-r3": "SignCryptDecryptionKey::decrypt maps the MessageAugmentation label to the Basic tag",
 "C12-r3": "create_decryption_share rejects identifier 255 (half-open range)",
 "C13-r3": "unseal returns the extended payload for messages >= 31 bytes (appended bytes come back)",
 "C14-r3": "two-share fast path in ElGamalDecryptionKey::from_shares drops the sign for descending identifiers",
 "C15-r3": "Display of SignatureSchemes changed: JSON MessageAugmentation comes back as ProofOfPossession",
 "C16-r3": "ProofCommitmentChallenge byte importers reduce mod r after the raw zero check: r and 2r import as zero",
 "C17-r3": "fixed 255-slot combiner: Signature::from_shares panics on 256 shares",
 "C18-r3": "ElGamal proof transcript always appends the default generator",
 "C19-r3": "scalar_from_le_bytes via from_repr_vartime: strict in blst, lenient in the pure-Rust backend",
 "C20-r3": "seal_scalar_with_proof takes the proof nonce from the caller-supplied blinder",
 "C01-r4": "SecretKeyEnum::to_le_bytes writes the G2 variant big-endian (the wrapper's le codec no longer round-trips a signing key)",
 "C02-r4": "specialised G2Impl core_verify looks at the identity checks only after the pairing equation failed: (pk=O, sig=O) verifies",
 "C03-r4": "thread-local hash_to_point memo in G2Impl keyed on the message bytes only: same bytes under another tag give the previous point",
 "C04-r4": "proof-of-knowledge verify tests 'proof is the identity' only in the failure branch: V=O with U=-(H(m)y) verifies",
 "C05-r4": "'last accepted' memo in core_verify whose fingerprint omits the tag: the same (pk, sig, bytes) is accepted under another tag directly afterwards",
 "C06-r4": "PoP aggregate verify takes a multi-signature fast path when all messages are identical: an added identity-key pair is not refused",
 "C07-r4": "length check moved from TryFrom<&[Signature]> into from_signatures: MultiSignature::try_from accepts a single signature",
 "C08-r4": "partial signing remembers the last hashed message without the tag: Basic then ProofOfPossession over the same message signs the wrong point",
 "C09-r4": "per-thread public-key scratch buffer shared by both group assignments: after a 96-byte key the 48-byte key's proof hashes a stale tail",
 "C10-r4": "ProofCommitment::generate hashes with POP_DST for the ProofOfPossession scheme: honest proofs of that scheme never verify",
 "C11-r4": "'last rejected' memo in the signcryption validity check keyed without the scheme tag: the honest ciphertext is refused after its relabelled copy",
 "C12-r4": "share verification caches H(u||v) without the tag: a share verifies against the relabelled copy directly after the genuine ciphertext (and the reverse)",
 "C13-r4": "canonical-prefix test looks at the first MESSAGE byte: messages of 128+ bytes that start with 0x00 do not open",
 "C14-r4": "debug_assert in ElGamal decrypt that the plaintext point is not the identity: Enc(1)+Enc(r-1) panics in builds with debug assertions",
 "C15-r4": "word-at-a-time all-zero test drops the upper half of every 8-byte word: scalars such as 1, 2^32-1 (be) or 2^32 (le) are refused on import",
 "C16-r4": "per-thread memo of the last validated share payload, 48-byte key also for 96-byte payloads: a non-subgroup point sharing the first half is let through",
 "C17-r4": "debug_assert that U + H(m)y is not the identity in proof-of-knowledge verify: a crafted commitment aborts builds with debug assertions",
 "C18-r4": "SignCryptDecryptionKey::decrypt uses the Basic tag for MessageAugmentation ciphertexts",
 "C19-r4": "HKDF hash-to-scalar retries while `s < Scalar::ONE`: the ordering of scalars differs between the backends, about one derivation in 2^31 diverges (witness seed found by a 49 s brute-force search)",
 "C20-r4": "time-lock seed 'hedged' with the identifier by assignment instead of xor: identifiers of 32+ bytes (any identifier under MessageAugmentation) make sealing deterministic",
 "C01-r5": "pk == generator fast path in core_verify compares with the NEGATED generator: honest signatures under sk = r-1 are rejected",
 "C02-r5": "empty-message shortcut in Signature::verify (MessageAugmentation) tests 'all bytes zero' instead of 'empty': all-zero messages verify as the empty message",
 "C03-r5": "aggregation skips identity signatures with take_while instead of filter: everything after an identity entry is dropped",
 "C04-r5": "ElGamal verify_proof tests c2 twice and c1 never: a purpose-built proof with c1 = O (blinder 0, consistent transcript) verifies",
 "C05-r5": "proof-of-knowledge verify no longer refuses the zero challenge: with y = 0 the tag-dependent term vanishes and a relabelled proof verifies",
 "C06-r5": "small-buffer pk||msg in augmentation aggregate_verify stores the length in a u8: pk_len + msg_len == 256 hashes the empty string",
 "C07-r5": "MultiSignature::verify sends Basic through the ProofOfPossession fast-aggregate path (wrong tag): Basic multi-signatures never verify",
 "C08-r5": "two-share fast path in PublicKey::from_shares takes |x_b - x_a| on u8: descending identifier order returns -pk",
 "C09-r5": "zero-key guard in SecretKey::proof_of_possession skips byte 0: keys k * 2^248 get no proof",
 "C10-r5": "early deadline check `timestamp + timeout` with plain addition: overflows (panic) in builds with overflow checks for timestamps near u64::MAX",
 "C11-r5": "signcryption key stream keyed on the compressed point without its first byte: P and -P give the same stream, the negated secret key decrypts (and the wire format changes)",
 "C12-r5": "SignCryptDecryptionKey::from_shares re-implements Lagrange with i64 products: overflow once the product of identifiers passes 2^63 (nine or more high identifiers)",
 "C13-r5": "`overhead + len <= plaintext.len()` instead of the subtraction: a crafted length prefix near usize::MAX panics instead of yielding nothing",
 "C14-r5": "short-plaintext fast path in seal_scalar never reads bit 63: plaintexts in [2^63, 2^64) are encrypted as m - 2^63",
 "C15-r5": "serde helper emits arrays longer than 64 bytes through serialize_bytes: 97-byte share arrays gain a length byte in the binary codec and come back shifted",
 "C16-r5": "identity fast path in the PublicKey / ProofOfPossession byte decoders looks only at the top two flag bits: c1..ff followed by zeros decodes to the identity",
 "C17-r5": "sorted-neighbour duplicate check in Basic aggregate_verify indexes order[0]: an empty list panics",
 "C18-r5": "fields of the Basic variant of ProofOfKnowledge declared as {v, u}: the positional binary codec swaps commitment and response, pinned Basic proofs no longer verify",
 "C19-r5": "duplicate-pair refusal in core_aggregate_verify keyed on the Display string of the point: affine in blst, projective in the pure-Rust backend, so the backends disagree when one copy of the key was decoded from bytes",
 "C20-r5": "ProofCommitmentChallenge::new draws from a per-thread generator cloned from one process-wide master: the i-th challenge is the same on every thread",
 "C01-r6": "augmentation verifier skips the key prefix when the message already starts with the signer's public key (signing always prefixes): such honest signatures are rejected",
 "C02-r6": "pairing helper of G2Impl treats Z^2 == 1 as 'already affine': a point held with Z = -1 enters the pairing negated (same key rejected, -pk accepted)",
 "C03-r6": "BlsSignature::secret_key_from_hash / random_secret_key call hash_to_scalar(salt, ikm) with the arguments swapped; the other key-generation doors are unaffected",
 "C04-r6": "partial signing tests the whole 33-byte share container for zero instead of the value: a zero-valued share with a non-zero identifier signs (identity signature share)",
 "C05-r6": "tag constants built by a macro; the G2Impl POP_DST call site omits the trailing underscore",
 "C06-r6": "batched Miller loop (64 pairs per batch) in the G2Impl pairing helper forgets to clear the scratch vector: aggregates of 64 signers are mis-verified",
 "C07-r6": "identity-valued parts are skipped before the scheme test in accumulation: [PoP, PoP, Aug(identity)] or [Aug, Aug(identity)] accumulate",
 "C08-r6": "SignatureShare::verify re-dispatches by scheme and its ProofOfPossession arm calls the Basic verifier: own PoP partial signatures are rejected through this door",
 "C09-r6": "ProofOfPossession byte decoder uses from_bytes_unchecked: a proof moved by a cofactor-torsion point decodes and verifies (G1Impl)",
 "C10-r6": "the Basic arm of ProofOfKnowledgeTimestamp::verify inlines the verifier without the timeout block: Basic timestamp proofs never expire",
 "C11-r6": "PublicKey::sign_crypt reuses the time-lock helper and seals pk||msg under MessageAugmentation: decryption returns pk||msg",
 "C12-r6": "decrypt_with_shares scrubs failures with `if !plaintext.is_empty()`: the empty message comes back as nothing",
 "C13-r6": "De-Morgan slip in the identity guard of unseal: the identity signature alone passes, a ciphertext sealed around the pairing value 1 opens",
 "C14-r6": "new sanity check in seal_scalar_with_proof compares the PUBLIC KEY with the base point: no proof can be made for the recipient key 1",
 "C15-r6": "MultiPublicKey byte decoder uses the default point as its failure marker: the identity accumulated key no longer imports from bytes",
 "C16-r6": "SecretKeyEnum visitor reads the key element with unwrap_or_default: the JSON document [\"BLS12381G1\"] decodes to the zero key",
 "C17-r6": "run folding in core_aggregate_verify peeks without advancing: two adjacent entries with equal messages (PoP; Aug with the same pair) never return",
 "C18-r6": "time-lock key stream re-created per 168-byte chunk: every chunk is masked with the first block (payloads over 168 bytes change on the wire, library round trips still work)",
 "C19-r6": "share combination through a const table built with from_raw_unchecked, which means Montgomery form in one backend and plain integers in the other: blst combines wrongly when identifiers straddle 31/32",
 "C20-r6": "split builds its polynomial from a key-material buffer whose chunked fill (over 256 bytes, i.e. threshold >= 10) writes nothing: shares are identical on every call",
 "C02-r7": "PoP-scheme signature tag of G2Impl ends in _NUL_ (copy of the Basic tag): Basic and PoP signatures of G2Impl coincide, relabelling verifies, PoP differs from the IETF value",
 "C06-r7": "AggregateSignature::from_signatures rewritten as a single pass with split_first: a single signature is aggregated (TryFrom still refuses it)",
 "C07-r7": "MultiPublicKey::from_public_keys dedups neighbouring equal keys before summing: [pk1,pk2,pk2] accumulates to pk1+pk2",
 "C09-r7": "pop_verify maps core_verify's errors through a match whose catch-all arm is Ok: the identity proof (and the identity key) verify",
 "C13-r7": "encrypt_time_lock skips the key prefix for an EMPTY identifier under MessageAugmentation: such ciphertexts never open",
 "C14-r7": "shared ElGamal transcript helper zips 5 labels with 6 points: commitment r2 never absorbed, message_proof unbound",
 "C16-r7": "ProofCommitment::try_from(&[u8]) slices value.get(..len) instead of testing the length: surplus trailing bytes accepted",
 "C17-r7": "SecretKeyEnum::from_le_bytes pre-checks the length as 32..=33 and copy_from_slice panics on 32-byte input with a valid tag",
}

def main():
  rows = []
  tot = {"n": 0, "m_own": 0, "m_any": 0, "f_n": 0, "f_own": 0, "f_any": 0, "z_n": 0, "z_own": 0}
  for sid in sorted(os.listdir(os.path.join(HERE, "seeded"))):
      m = os.path.join(HERE, "seeded", sid, "meta.json")
      if not os.path.exists(m):
          continue
      d = json.load(open(m))
      r = d["checks_run_against_it"]
      own = d["breaks_property"]
      fired = sorted(r["fired"])
      others = [f for f in fired if f != own]
      inc = sorted(r["inconclusive"])
      first = d.get("first_measurement_before_strengthening")
      fin = d.get("final_machinery_own_check")
      tot["n"] += 1
      tot["m_own"] += own in fired
      tot["m_any"] += bool(fired)
      if first:
          tot["f_n"] += 1
          tot["f_own"] += first["caught_by_own_property_check"]
          tot["f_any"] += first["caught_by_any_check"]
          fcol = ("own check" if first["caught_by_own_property_check"] else ("only " + ", ".join(first["fired"]) if first["fired"] else "**missed by all**"))
      else:
          fcol = ""
      if fin:
          tot["z_n"] += 1
          tot["z_own"] += fin["fired"]
          zcol = "yes" if fin["fired"] else ("inconclusive" if fin["inconclusive"] else "**NO**")
      else:
          zcol = ""
      rows.append((sid, SUMMARY.get(sid, ""), fcol, "yes" if own in fired else "no", ", ".join(others) or "-", ", ".join(inc) or "-", zcol))
  print("| seeded change | what it does | first measurement (rounds 4-7: machinery as tagged before the change was looked at) | full matrix: own check | full matrix: also fired | full matrix: inconclusive | final machinery: own check |")
  print("|---|---|---|---|---|---|---|")
  for r in rows:
      print("| %s | %s | %s | %s | %s | %s | %s |" % r)
  print()
  print("Totals: %(n)d changes. Full matrix (all 20 quick checks per change; for rounds 5, 6 and 7 this IS the first measurement; round 7: all 20 checks for C06/C09/C14/C17-r7, only the own check for C02/C07/C13/C16-r7): own check fired on %(m_own)d, some check on %(m_any)d. First measurements (rounds 4, 5, 6 and the 8 changes of round 7, %(f_n)d changes): own check %(f_own)d, some check %(f_any)d. Final machinery, own check only (%(z_n)d changes): fired on %(z_own)d." % tot)


if __name__ == "__main__":
    main()
