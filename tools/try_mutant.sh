#!/usr/bin/env bash
# tools/try_mutant.sh <patch.diff> [ID ...]
# Apply a property-breaking patch to /repo, run the quick checks (all 20 or the given ones)
# without touching committed evidence, print which checks fire, and ALWAYS undo the patch.
set -u
HERE="$(cd "$(dirname "${BASH_SOURCE[0]}")/.." && pwd)"
PATCH="$(realpath "$1")"; shift
# the same change re-based onto a later fix: commit, when one is stored next to it
[ -f "$(dirname "$PATCH")/patch.rebased.diff" ] && [ "$(basename "$PATCH")" = patch.diff ] && PATCH="$(dirname "$PATCH")/patch.rebased.diff"
IDS="${*:-C01 C02 C03 C04 C05 C06 C07 C08 C09 C10 C11 C12 C13 C14 C15 C16 C17 C18 C19 C20}"
TIER="${MUT_TIER:-quick}"
if ! git -C /repo diff --quiet; then echo "refusing: /repo has uncommitted changes"; exit 2; fi
git -C /repo apply "$PATCH" || { echo "patch does not apply"; exit 2; }
trap 'git -C /repo checkout -- . ; git -C /repo clean -fdq -- tests src >/dev/null 2>&1' EXIT
fired=""
for id in $IDS; do
  out="$(VERIF_NO_EVIDENCE=1 "$HERE/check" "$id" --tier "$TIER" 2>&1)"; rc=$?
  nv=$(printf '%s\n' "$out" | grep -c '^VIOLATION')
  inc=$(printf '%s\n' "$out" | grep -c '^INCONCLUSIVE')
  if [ $rc -eq 1 ]; then
    fired="$fired $id"
    echo "[$id] FIRED rc=$rc violations=$nv"
    printf '%s\n' "$out" | grep '^VIOLATION' | sed 's/replay=[^ ]* //' | head -6
  elif [ $rc -eq 0 ]; then
    echo "[$id] silent"
  else
    echo "[$id] rc=$rc inconclusive=$inc"
    printf '%s\n' "$out" | grep -E '^INCONCLUSIVE|error' | head -4
  fi
done
echo "FIRED:$fired"
