#!/usr/bin/env bash
# tools/valgrind_pass.sh <ID> <seed> [shards-to-run] [total-shards]
# Informational-plus pass for the hostile decode workloads (C16, C17): runs several shards of the
# QUICK workload of the blst/release monitor binary under valgrind memcheck (the only tool here
# that sees across the FFI into blst's C/assembly). Verdict-bearing: addressability errors
# (invalid read / write / free, overlapping copy). "Uninitialised value" reports are only counted.
set -u
HERE="$(cd "$(dirname "${BASH_SOURCE[0]}")/.." && pwd)"
ID="$1"; SEED="${2:-1}"; RUN="${3:-16}"; TOTAL="${4:-96}"
BIN="$HERE/target-blst/release/monitor"
W="$HERE/replay/.work/valgrind-$ID"; rm -rf "$W"; mkdir -p "$W"
command -v valgrind >/dev/null || { echo "valgrind: not installed - pass skipped"; exit 0; }
pids=""
for k in $(seq 0 $((RUN-1))); do
  # spread the chosen shards over the whole range
  shard=$(( (k * TOTAL) / RUN ))
  ( VERIF_DIR="$HERE" timeout 3000 valgrind --tool=memcheck --error-exitcode=0 --log-file="$W/vg-$shard.log" \
      --num-callers=20 --undef-value-errors=yes \
      "$BIN" "$ID" --tier quick --seed "$SEED" --worker "$shard/$TOTAL" --out "$W/out-$shard.json" >/dev/null 2>&1
    echo "$?" > "$W/rc-$shard" ) &
  pids="$pids $!"
done
wait $pids
python3 - "$W" "$ID" "$HERE" <<'PY'
import glob, json, os, re, sys
w, pid, here = sys.argv[1:4]
addr = 0; uninit = 0; shards = 0; evals = 0; crashed = []
witness = []
for f in sorted(glob.glob(os.path.join(w, "vg-*.log"))):
    shards += 1
    t = open(f, errors="replace").read()
    a = len(re.findall(r"Invalid (read|write|free)|Source and destination overlap|Mismatched free|Jump to the invalid address", t))
    u = len(re.findall(r"uninitialised value|Use of uninitialised", t))
    addr += a; uninit += u
    if a:
        m = re.search(r"(Invalid (?:read|write|free).*?)(?:\n==\d+== \n)", t, re.S)
        witness.append({"log": f, "first": (m.group(1)[:1500] if m else "")})
for f in sorted(glob.glob(os.path.join(w, "rc-*"))):
    rc = open(f).read().strip()
    if rc not in ("0",):
        crashed.append(os.path.basename(f) + ":" + rc)
for f in sorted(glob.glob(os.path.join(w, "out-*.json"))):
    try:
        evals += json.load(open(f)).get("evaluations", 0)
    except Exception:
        pass
res = {"tool": "valgrind memcheck 3.19 on blst/release", "shards_run": shards, "evaluations_under_valgrind": evals,
       "addressability_errors": addr, "uninitialised_value_reports_informational": uninit, "abnormal_exits": crashed}
print("valgrind:", json.dumps(res))
ev = os.path.join(here, "evidence", pid + ".json")
if os.path.exists(ev) and os.environ.get("VERIF_NO_EVIDENCE") != "1":
    d = json.load(open(ev)); d["coverage"]["valgrind_pass"] = res; json.dump(d, open(ev, "w"), indent=1)
if addr:
    rp = os.path.join(here, "replay", f"{pid}-valgrind.json")
    json.dump({"property": pid, "signature": "valgrind/addressability", "detail": witness}, open(rp, "w"), indent=1)
    print(f"VIOLATION property={pid} replay={rp} signature=valgrind/addressability")
    sys.exit(1)
if shards == 0 or evals == 0 or crashed:
    print(f"valgrind pass inconclusive (shards={shards} evals={evals} abnormal={crashed}) - informational, verdict unchanged")
sys.exit(0)
PY
rc=$?
rm -rf "$W"
exit $rc
