#!/usr/bin/env python3
"""Validate an evidence file against /root/.vp/EVIDENCE.schema.json (or the copy in tools/)."""
import json, os, sys
path = sys.argv[1]
here = os.path.dirname(os.path.abspath(__file__))
schema_path = "/root/.vp/EVIDENCE.schema.json"
if not os.path.exists(schema_path):
    schema_path = os.path.join(here, "EVIDENCE.schema.json")
try:
    ev = json.load(open(path))
except Exception as e:
    print(f"evidence unreadable: {e}"); sys.exit(1)
try:
    import jsonschema
except ImportError:
    sys.path.insert(0, "/opt/veriftools/pyvenv/lib/python3.11/site-packages")
    try:
        import jsonschema
    except ImportError:
        jsonschema = None
if jsonschema is not None:
    try:
        jsonschema.validate(ev, json.load(open(schema_path)))
    except jsonschema.ValidationError as e:
        print(f"evidence does not validate: {e.message}"); sys.exit(1)
else:
    # minimal structural fallback
    cov = ev.get("coverage", {})
    ok = all(k in ev for k in ("property_id","tier","seed","level","coverage","wall_s")) \
        and cov.get("evaluations",0) >= 1 and cov.get("distinct_nontrivial",0) >= 2 \
        and isinstance(cov.get("samples"), list) and len(cov["samples"]) >= 1 and isinstance(cov.get("rule"), str)
    if not ok:
        print("evidence does not validate (fallback check)"); sys.exit(1)
sys.exit(0)
