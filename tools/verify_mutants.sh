#!/usr/bin/env bash
# tools/verify_mutants.sh [worktree]  - every patch in /verif/mutants must apply, compile and pass
# the 37 baseline tests (scratch worktree outside /repo and /verif, default /tmp/mymut).
set -u
WT="${1:-/tmp/mymut}"
cd "$WT" || exit 2
for p in /verif/mutants/*.patch; do
  git checkout -q -- . ; git clean -fdq tests
  if ! git apply "$p" 2>/dev/null; then echo "$(basename $p): DOES NOT APPLY"; continue; fi
  feat=""
  case "$p" in *rust-backend*) feat="--no-default-features --features rust";; esac
  out=$(cargo test --offline --no-fail-fast $feat --lib --test encryption --test proofs --test serialization --test signatures 2>&1)
  n=$(printf '%s\n' "$out" | grep -E "^test result: ok" | awk '{s+=$4} END {print s+0}')
  f=$(printf '%s\n' "$out" | grep -E "^test result: FAILED" | wc -l)
  echo "$(basename $p): baseline_passed=$n failed_suites=$f"
done
git checkout -q -- . ; git clean -fdq tests
