#!/usr/bin/env bash
# tools/verify_seeded.sh <ID> [worktree]  - independent confirmation of a seeded change:
#   with the patch: the 37 baseline tests pass and the demo fails; without it: the demo passes.
# Uses a scratch worktree outside /repo and /verif (default /tmp/mymut, must be clean).
set -u
ID="$1"; WT="${2:-/tmp/mymut}"
S="/verif/seeded/$ID"; base_id="${ID%%-*}"
lower=$(echo "$base_id" | tr 'A-Z' 'a-z')
cd "$WT" || exit 2
git checkout -q -- . ; git clean -fdq tests
P="$S/patch.diff"; [ -f "$S/patch.rebased.diff" ] && P="$S/patch.rebased.diff"
git apply "$P" || { echo "$ID: patch does not apply"; exit 2; }
cp "$S"/demo_*.rs tests/
base=$(cargo test --offline --no-fail-fast --lib --test encryption --test proofs --test serialization --test signatures 2>&1 | grep -E "^test result: ok" | awk '{s+=$4} END {print s+0}')
demo_with=$(cargo test --offline --test demo_$lower 2>&1 | grep -E "^test result" | tail -1)
git apply -R "$P"
demo_without=$(cargo test --offline --test demo_$lower 2>&1 | grep -E "^test result" | tail -1)
git checkout -q -- . ; git clean -fdq tests
echo "$ID baseline_passed_with_patch=$base | demo with patch: $demo_with | demo without patch: $demo_without"
